"""C12 - LDM behaves as a store of objects with registration gating and expiry.

Decides: which state each IF.LDM.3 / IF.LDM.4 operation may and must touch (effects: transitive write sets over store,
id counter and the two registries - add / update / delete reach the store and leave the registries alone, registration
touches only its own registry, a query writes nothing); that every store-mutating service call sits under
`application_id in <provider registry getter>()` and every query under the consumer one, and registry cache coherence:
when a getter answers from a cached view, every method that changes the registry resets that view, and the two registries are
bound to containers of their own - never one object under both names (gated); that an
update replaces only the record's content member, on both back-ends (update-scope); that results tested for success
can be successes - the tested callee does not return None on every path - and that an integer identifier is never tested for
truthiness, 0 being the first identifier handed out (dead-success); that every key of the stored
record is fed by the same-named attribute of the request (record-faithful); identifier allocation (ids: id = counter,
then counter += 1, never derived from the store's size; no other method and nothing outside the store class writes
the counter); expiry: an object is deleted exactly under `now > timestamp + validity * 1000`, and it is the object the
scan examines; the back-ends' remove(record) deletes only under `<whole stored record> == record` and one record per call;
both maintenance scans range over get_all_data_containers() with no break / return, so no object is
skipped (scan-is-complete); collect_trash runs the time-validity check on every normal exit; the reactive maintenance
collects trash from add_provider_data under the rate limit at most; that the area-of-maintenance check never deletes
under a true `compare_with_int` (object inside the area) (area).
Does not decide equivalence with a map model over histories, expiry timing, TinyDB internals beyond its update scope.
"""
from __future__ import annotations

import ast
import copy
import re

from ..prog import AnalysisError, ClassInfo, FuncInfo, dotted, unparse
from ..absint import to_poly
from ..flow import cond_atoms
from ..match import pretty
from ..summaries import Writes, returns_only_none
from .. import sem

PROP = "C12"
LDM = "facilities.local_dynamic_map"
IF3 = f"{LDM}.if_ldm_3.InterfaceLDM3"
IF4 = f"{LDM}.if_ldm_4.InterfaceLDM4"
SV = f"{LDM}.ldm_service.LDMService"
DB = f"{LDM}.dictionary_database.DictionaryDataBase"
TDB = f"{LDM}.tinydb_database.TinyDB"
MT = f"{LDM}.ldm_maintenance.LDMMaintenance"

TRACKED = [(DB, "database"), (DB, "_next_id"), (SV, "data_provider_its_aid"), (SV, "data_consumer_its_aid"),
           (SV, "subscriptions"), (SV, "last_checked_subscriptions_time")]
STORE = {"DictionaryDataBase.database"}
PROV = "LDMService.data_provider_its_aid"
CONS = "LDMService.data_consumer_its_aid"


def norm(s):
    return re.sub(r"\s+", "", s)


def snake(camel: str) -> str:
    return re.sub(r"(?<!^)(?=[A-Z])", "_", camel).lower()


# ---------------------------------------------------------------------------------------------------------------------
# helpers: mutations of a container attribute (through local aliases), must-executed stores, path conditions
# ---------------------------------------------------------------------------------------------------------------------
def _load(e: ast.AST) -> ast.AST:
    e = copy.deepcopy(e)
    for n in ast.walk(e):
        if hasattr(n, "ctx"):
            n.ctx = ast.Load()
    return e


def _chain(e: ast.AST):
    """expression -> (dotted root, [steps]) with steps ('sub', key) / ('call', method, call node) / ('attr', name)."""
    steps, cur = [], e
    while True:
        if isinstance(cur, ast.Subscript):
            steps.append(("sub", cur.slice))
            cur = cur.value
        elif isinstance(cur, ast.Call) and isinstance(cur.func, ast.Attribute):
            steps.append(("call", cur.func.attr, cur))
            cur = cur.func.value
        elif isinstance(cur, ast.Attribute) and dotted(cur) is None:
            steps.append(("attr", cur.attr))
            cur = cur.value
        else:
            break
    steps.reverse()
    return dotted(cur), steps


def _rooted(fl, expr: ast.AST, st, root: str) -> list:
    """Step lists of every expansion of `expr` (locals resolved through all their reaching definitions) that denotes
    `root` or something reached from it."""
    out = []
    for alt in fl.alternatives(_load(expr), st):
        d, steps = _chain(alt)
        if d is None:
            continue
        if d == root:
            out.append(steps)
        elif d.startswith(root + "."):
            out.append([("attr", a) for a in d[len(root) + 1:].split(".")] + steps)
    return out


READ_ONLY = {"get", "items", "values", "keys", "copy", "all", "search", "contains", "count", "__len__", "__contains__"}


def mutations(fl, fi: FuncInfo, root: str) -> list:
    """Every statement / call in `fi` that may change the object held in `root` (an attribute chain such as
    self.database) or anything reached from it - also through local aliases.  Entries:
    dict(kind='store'|'aug'|'delete'|'rebind'|'call', steps=[...], value=<ast|None>, stmt=<ast.stmt>, node=<ast>)."""
    out = []

    def targets(t):
        if isinstance(t, (ast.Tuple, ast.List)):
            for e in t.elts:
                yield from targets(e)
        elif isinstance(t, ast.Starred):
            yield from targets(t.value)
        else:
            yield t

    for n in ast.walk(fi.node):
        if isinstance(n, (ast.FunctionDef, ast.AsyncFunctionDef, ast.Lambda)) and n is not fi.node:
            continue
        pairs = []
        if isinstance(n, ast.Assign):
            pairs = [("store", t, n.value) for tt in n.targets for t in targets(tt)]
        elif isinstance(n, ast.AnnAssign) and n.value is not None:
            pairs = [("store", n.target, n.value)]
        elif isinstance(n, ast.AugAssign):
            pairs = [("aug", n.target, n.value)]
        elif isinstance(n, ast.Delete):
            pairs = [("delete", t, None) for tt in n.targets for t in targets(tt)]
        elif isinstance(n, (ast.For, ast.AsyncFor)):
            pairs = [("store", t, None) for t in targets(n.target)]
        if pairs and id(n) in fl.before:
            st = fl.before[id(n)]
            for kind, t, v in pairs:
                if isinstance(t, ast.Name):
                    continue
                for steps in _rooted(fl, t, st, root):
                    k = kind
                    if not steps and kind == "store":
                        k = "rebind"
                    out.append(dict(kind=k, steps=steps, value=v, stmt=n, node=t))
        if isinstance(n, ast.Call) and isinstance(n.func, ast.Attribute) and n.func.attr not in READ_ONLY:
            try:
                st = fl.state_at(n)
            except AnalysisError:
                continue
            for steps in _rooted(fl, n.func.value, st, root):
                out.append(dict(kind="call", steps=steps, value=n, stmt=fl.stmt_of.get(id(n)), node=n, method=n.func.attr))
    return out


def _block_of(fl, s: ast.AST):
    """(parent node, statement list containing s)"""
    par = fl.parent.get(id(s))
    if par is None:
        return None, None
    for fld in ("body", "orelse", "finalbody"):
        b = getattr(par, fld, None)
        if isinstance(b, list) and any(x is s for x in b):
            return par, b
    return par, None


def certainly_executed(fl, fi: FuncInfo, st, stmt: ast.AST, exit_stmt, what: str) -> bool:
    """The item store / call written at statement `stmt` has certainly happened when the exit `exit_stmt` (None: falling
    off the end) is reached in state `st`.  Either the flow walker recorded it as a must-call fact (facts are tagged with
    the line of the statement that produced them and survive kills in degraded form), or `stmt` dominates the exit
    structurally: it sits - possibly inside `with` blocks - in a statement list that also contains, further down, the
    exit or a statement enclosing it."""
    for f in st.facts:
        if f.kind != "call" or f.line != getattr(stmt, "lineno", -1) or not isinstance(f.node, ast.Call):
            continue
        fn = f.node.func
        if what == "__setitem__" and isinstance(fn, ast.Name) and fn.id == "__setitem__":
            return True
        if what != "__setitem__" and isinstance(fn, ast.Attribute) and fn.attr == what:
            return True
    s = stmt if isinstance(stmt, ast.stmt) else fl.stmt_of.get(id(stmt))
    if s is None:
        return False
    # blocks (statement lists) on the way from the function body down to the exit, with the index the path takes
    chain = []
    if exit_stmt is None:
        chain.append((fi.node.body, len(fi.node.body)))
    else:
        cur = exit_stmt
        while cur is not fi.node and cur is not None:
            par, blk = _block_of(fl, cur)
            if blk is not None:
                chain.append((blk, [i for i, x in enumerate(blk) if x is cur][0]))
            cur = par
    while True:
        par, blk = _block_of(fl, s)
        if blk is None:
            return False
        for b, idx in chain:
            if b is blk:
                return [i for i, x in enumerate(blk) if x is s][0] < idx
        if isinstance(par, (ast.With, ast.AsyncWith)) and blk is par.body:
            s = par
            continue
        return False


def success_exits(fl) -> list:
    """(stmt, state) of every normal exit that does not return a constant False / None."""
    out = []
    for k, s, st in fl.exits:
        if k == "fall":
            out.append((None, st))
        elif k == "return":
            v = s.value
            if isinstance(v, ast.Constant) and v.value in (False, None):
                continue
            out.append((s, st))
    return out


def counter_value(P, fl, mod, e: ast.AST, st, attr: str, depth: int = 0):
    """Value of an integer expression as (k, c) meaning k * C0 + c, where C0 is the value `attr` had when the function
    was entered; None when the expression is not such a linear form (e.g. derived from len(...), merged definitions)."""
    if depth > 10:
        return None
    c = P.try_fold(mod, e, default="<nc>")
    if c != "<nc>":
        return (0, c) if isinstance(c, int) and not isinstance(c, bool) else None
    d = dotted(e)
    if isinstance(e, ast.Name):
        mo = re.match(r"^(.+)@(p?)([0-9_]+)$", e.id)      # version token left by FunctionFlow.expand
        if mo:
            if mo.group(2):
                return None                                # merge of several definitions
            di = fl.defs.get(int(mo.group(3)))
            if di is None or di.kind not in ("assign", "aug") or di.value is None or id(di.stmt) not in fl.before:
                return None
            return counter_value(P, fl, mod, di.value, fl.before[id(di.stmt)], attr, depth + 1)
    if d is not None and (isinstance(e, ast.Name) or d == attr):
        ds = st.defs.get(d)
        if not ds:
            return (1, 0) if d == attr else None
        if len(ds) != 1:
            return None
        di = fl.defs[next(iter(ds))]
        if di.kind not in ("assign", "aug") or di.value is None or id(di.stmt) not in fl.before:
            return None
        return counter_value(P, fl, mod, di.value, fl.before[id(di.stmt)], attr, depth + 1)
    if isinstance(e, ast.BinOp) and isinstance(e.op, (ast.Add, ast.Sub)):
        a = counter_value(P, fl, mod, e.left, st, attr, depth + 1)
        b = counter_value(P, fl, mod, e.right, st, attr, depth + 1)
        if a is None or b is None:
            return None
        sg = 1 if isinstance(e.op, ast.Add) else -1
        return (a[0] + sg * b[0], a[1] + sg * b[1])
    if isinstance(e, ast.Call) and dotted(e.func) == "int" and len(e.args) == 1 and not e.keywords:
        return counter_value(P, fl, mod, e.args[0], st, attr, depth + 1)
    return None


def _definitely_exits(stmts: list) -> bool:
    return bool(stmts) and isinstance(stmts[-1], (ast.Return, ast.Raise, ast.Continue, ast.Break))


def _may_exit(s: ast.AST) -> bool:
    for n in ast.walk(s):
        if isinstance(n, (ast.Return, ast.Raise, ast.Continue, ast.Break, ast.Assert)):
            return True
    return False


def path_guards(fl, fi: FuncInfo, node: ast.AST):
    """Conditions under which `node` is evaluated, read off the statement structure:
    -> ([(test, polarity, stmt)], [problems]).  Enclosing `if` branches, preceding `if ...: return/raise` exits and
    asserts are guards; `with` blocks are transparent; anything else on the way (loops, try, short-circuit operators,
    early exits of other shapes) is reported as a problem.  Completeness is cross-checked with the flow walker: every
    condition fact in force at the node must stem from one of the guards found."""
    guards, problems = [], []
    s = node if isinstance(node, ast.stmt) else fl.stmt_of.get(id(node))
    if s is None:
        return guards, ["statement of the call not found"]
    cur = s
    while cur is not fi.node:
        par = fl.parent.get(id(cur))
        if par is None:
            problems.append("enclosing block not found")
            break
        which, block = None, None
        for fld in ("body", "orelse", "finalbody"):
            b = getattr(par, fld, None)
            if isinstance(b, list) and any(x is cur for x in b):
                which, block = fld, b
        if block is None:
            problems.append(f"unrecognised enclosing construct {type(par).__name__}")
            break
        for sib in block:
            if sib is cur:
                break
            if isinstance(sib, ast.Assert):
                guards.append((sib.test, True, sib))
            elif isinstance(sib, ast.If) and not sib.orelse and _definitely_exits(sib.body) and \
                    not any(_may_exit(x) for x in sib.body[:-1]):
                guards.append((sib.test, False, sib))
            elif _may_exit(sib):
                problems.append(f"statement at line {sib.lineno} can leave the function before the call")
        if isinstance(par, ast.If):
            guards.append((par.test, which == "body", par))
        elif isinstance(par, (ast.With, ast.AsyncWith)) or par is fi.node:
            pass
        else:
            problems.append(f"the call sits inside a {type(par).__name__} block (line {getattr(par, 'lineno', '?')})")
        cur = par
    lines = {g[2].lineno for g in guards}
    try:
        st = fl.state_at(node)
        for f in st.facts:
            if f.kind == "cond" and f.line not in lines:
                problems.append(f"condition `{'' if f.pol else 'not '}{pretty(f.xkey)[:60]}` (line {f.line}) also guards the call")
    except AnalysisError as e:
        problems.append(str(e))
    return guards, sorted(set(problems))


def run(ctx):
    P = ctx.prog
    ctx.explanation = (
        "Effect rules (K7): the transitive write set of every IF.LDM.3/4 entry point over the store dictionary, the id "
        "counter, the two registries and the subscription structures is computed through the resolved call graph (class "
        "hierarchy analysis over both service and maintenance variants, in-memory back-end) and compared with what the "
        "operation may / must touch. Guard rules (K1) put the registration test in front of every store mutation. "
        "Returns-none summaries expose success tests that can never succeed. Forwarding rules compare every key of the "
        "stored record with the request attribute feeding it. The suite mocks the layers below each interface; the rules "
        "follow the real calls.")
    ctx.declined = ["equivalence with a map model over histories", "expiry timing", "TinyDB internals (only its update scope)"]
    w = Writes(ctx, TRACKED)
    if3, if4 = P.cls(IF3), P.cls(IF4)

    def effects(ci, name, must, must_not, rule="C12.effects"):
        m = ci.methods.get(name)
        if m is None:
            raise AnalysisError(f"C12: {ci.name}.{name} vanished")
        ws = w.of(m)
        for loc in must:
            ctx.ob(rule, m.short(), f"must-write:{loc}", loc in ws,
                   f"{name} " + (f"reaches a write of {loc}" if loc in ws else
                                 f"never writes {loc} on any path (transitive writes: {sorted(ws) or 'none'})"), m.loc)
        for loc in must_not:
            ctx.ob(rule, m.short(), f"must-not-write:{loc}", loc not in ws,
                   f"{name} " + (f"does not touch {loc}" if loc not in ws else f"can write {loc}: " + _why(w, m, loc)), m.loc)
    effects(if3, "add_provider_data", STORE, {PROV, CONS})
    effects(if3, "update_provider_data", STORE, {PROV, CONS, "DictionaryDataBase._next_id"})
    effects(if3, "delete_provider_data", STORE, {PROV, CONS, "DictionaryDataBase._next_id"})
    effects(if3, "register_data_provider", {PROV}, STORE | {CONS})
    effects(if3, "deregister_data_provider", {PROV}, STORE | {CONS})
    effects(if4, "register_data_consumer", {CONS}, STORE | {PROV})
    effects(if4, "deregister_data_consumer", {CONS}, STORE | {PROV})
    effects(if4, "request_data_objects", set(), STORE | {PROV, CONS, "DictionaryDataBase._next_id"})
    ctx.floor("C12.effects", 25)

    # ---- gating
    sv_cls = P.cls(SV)

    def service_targets(m, call, names):
        return [t for t in P.call_targets(m, call, count=False) if isinstance(t, FuncInfo) and t.name in names
                and t.cls is not None and any(c.qual == sv_cls.qual for c in t.cls.mro())]

    def registered(m, fl, node, registry) -> bool:
        """A must-fact `<request>.application_id in <service>.<registry getter>()` is in force at `node`."""
        req = m.params[1]
        for f in fl.state_at(node).facts:
            if f.kind != "cond" or not f.pol or not isinstance(f.xnode, ast.Compare) or len(f.xnode.ops) != 1 \
                    or not isinstance(f.xnode.ops[0], ast.In):
                continue
            left, right = f.xnode.left, f.xnode.comparators[0]
            if not sem.same(left, f"{req}.application_id"):
                continue
            if isinstance(right, ast.Call) and not right.args and not right.keywords and service_targets(m, right, (registry,)):
                return True
        return False

    for name, registry, callee_names in (("add_provider_data", "get_data_provider_its_aid", ("add_provider_data",)),
                                         ("update_provider_data", "get_data_provider_its_aid", ("update_provider_data",)),
                                         ("delete_provider_data", "get_data_provider_its_aid", ("del_provider_data", "delete_provider_data"))):
        m = if3.methods[name]
        fl = ctx.flows.get(m)
        n = 0
        for c in P.calls_in(m):
            if isinstance(c.func, ast.Attribute) and service_targets(m, c, callee_names):
                n += 1
                ok = registered(m, fl, c, registry)
                ctx.ob("C12.gated", m.short(), f"{c.func.attr}", ok,
                       f"the store is changed only for a registered provider" if ok else
                       f"{name} reaches the store without testing `application_id in {registry}()`: an unregistered application "
                       f"can change stored objects", f"{m.module.rel}:{c.lineno}")
        if n == 0:
            raise AnalysisError(f"C12: {name} no longer calls the service")
    m = if4.methods["request_data_objects"]
    fl = ctx.flows.get(m)
    nq = 0
    for c in P.calls_in(m):
        if isinstance(c.func, ast.Attribute) and service_targets(m, c, ("query",)):
            nq += 1
            ok = registered(m, fl, c, "get_data_consumer_its_aid")
            ctx.ob("C12.gated", m.short(), "query", ok, "queries are answered only for registered consumers", f"{m.module.rel}:{c.lineno}")
    if nq == 0:
        raise AnalysisError("C12: request_data_objects no longer queries the service")

    # ---- update scope: only the content member of the record is replaced
    CONTENT = "dataObject"
    for q in (DB, TDB):
        u = P.cls(q).methods["update"]
        if len(u.params) < 3:
            raise AnalysisError(f"C12: {u.short()} no longer takes (data, index)")
        p_data, p_index = u.params[1], u.params[2]
        ufl = ctx.flows.get(u)
        muts = mutations(ufl, u, "self.database")
        exits = success_exits(ufl)
        good, bad = [], []
        if q == DB:
            # the only change to the store is  <record of index>[CONTENT] = data  (the record may be held in a local)
            for mu in muts:
                st = ufl.before.get(id(mu["stmt"]))
                steps = mu["steps"]
                if mu["kind"] == "store" and len(steps) == 2 and steps[0][0] == "sub" and steps[1][0] == "sub" and st is not None \
                        and sem.same(steps[0][1], p_index) and P.try_fold(u.module, steps[1][1]) == CONTENT \
                        and sem.same(ufl.expand(mu["value"], st), p_data):
                    good.append(mu)
                elif mu["kind"] in ("store", "rebind") and len(steps) <= 1:
                    bad.append((mu, "overwrites the WHOLE stored record with the bare message: application id, timestamp, location and "
                                    "time validity of the object are lost (the next expiry pass raises KeyError('timeValidity'))"))
                elif mu["kind"] == "call" and len(steps) == 1 and mu.get("method") in ("update", "__ior__"):
                    bad.append((mu, "merges the message's top-level keys into the record instead of replacing its "
                                    f"'{CONTENT}' member"))
                else:
                    bad.append((mu, f"changes the store in another way than replacing record['{CONTENT}'] "
                                    f"(`{unparse(mu['node'])[:60]}`)"))
            always = bool(exits) and bool(good) and all(any(certainly_executed(ufl, u, st, g["stmt"], es, "__setitem__") for g in good) for es, st in exits)
            ok = always and not bad
            if ok:
                msg = f"update replaces only record['{CONTENT}'] of the record with the given index, on every successful return"
            elif bad:
                msg = "update " + bad[0][1]
            elif not good:
                msg = f"update never stores the new message under record['{CONTENT}'] of the record with the given index"
            else:
                msg = f"update can report success without having replaced record['{CONTENT}']"
            ctx.ob("C12.update-scope", u.short(), "content-only", ok, msg, u.loc)
        else:
            # document store: the only change is  table.update({CONTENT: data}, doc_ids=[index])
            merged = False
            for mu in muts:
                c = mu["value"]
                st = ufl.before.get(id(mu["stmt"]))
                if mu["kind"] == "call" and not mu["steps"] and mu.get("method") == "update" and st is not None:
                    kws = {k.arg: k.value for k in c.keywords if k.arg}
                    fields = ufl.expand(c.args[0], st) if c.args else (ufl.expand(kws["fields"], st) if "fields" in kws else None)
                    ids = ufl.expand(kws["doc_ids"], st) if "doc_ids" in kws else None
                    f_ok = isinstance(fields, ast.Dict) and len(fields.keys) == 1 and fields.keys[0] is not None and \
                        P.try_fold(u.module, fields.keys[0]) == CONTENT and sem.same(fields.values[0], p_data)
                    i_ok = isinstance(ids, (ast.List, ast.Tuple)) and len(ids.elts) == 1 and sem.same(ids.elts[0], p_index)
                    if f_ok and i_ok:
                        good.append(mu)
                        continue
                    if fields is not None and sem.same(fields, p_data):
                        merged = True
                    bad.append((mu, f"`{unparse(c)[:70]}`"))
                else:
                    bad.append((mu, f"`{unparse(mu['node'])[:70]}`"))
            always = bool(exits) and bool(good) and all(any(certainly_executed(ufl, u, st, g["stmt"], es, "update") for g in good) for es, st in exits)
            ok = always and not bad
            ctx.ob("C12.update-scope", u.short(), "content-only", ok,
                   f"update replaces only the '{CONTENT}' member of the document" if ok else
                   (f"update merges the message's top-level keys into the record instead of replacing its '{CONTENT}' member" if merged else
                    f"update does not (only) replace the '{CONTENT}' member of the document with the given id"
                    + (f": {bad[0][1]}" if bad else "")), u.loc)

    # ---- success tests that cannot succeed
    for ci in (if3, if4):
        for m in ci.methods.values():
            fl = ctx.flows.get(m)
            for n in ast.walk(m.node):
                # any test of a local against None, whatever its spelling (`x is not None`, `not x is None`, `x is None` ... else)
                tested = None
                if isinstance(n, ast.If) and id(n) in fl.before:
                    for a_ in sem.atoms(n.test, True):
                        m_ = re.fullmatch(r"!?is\(None,([A-Za-z_][A-Za-z_0-9]*)\)", a_)
                        if m_:
                            tested = m_.group(1)
                if tested is not None:
                    class _T:       # stand-in so the message below keeps reading naturally
                        pass
                    n_test_name = tested
                    defs = fl.reaching(tested, fl.before[id(n)])
                    for d in defs:
                        if isinstance(d.value, ast.Call):
                            tg = [t for t in P.call_targets(m, d.value, count=False) if isinstance(t, FuncInfo)]
                            if tg:
                                dead = all(returns_only_none(P, t, ctx.flows) for t in tg)
                                ctx.ob("C12.dead-success", m.short(), f"{n_test_name}<-{tg[0].name}", not dead,
                                       f"`{unparse(n.test)}` tests the result of {tg[0].short()}" +
                                       (", which can return a value" if not dead else
                                        ", which returns None on every path: the success branch is dead and the operation "
                                        "always reports failure"), f"{m.module.rel}:{n.lineno}")
                # a truthiness test of an identifier: 0 is the first identifier the store hands out, so `if data_object_id:`
                # reports the first object of an LDM as refused although it was stored
                if isinstance(n, ast.If) and id(n) in fl.before:
                    for a_ in sem.atoms(n.test, True):
                        m_ = re.fullmatch(r"!?truthy\(([A-Za-z_][A-Za-z_0-9]*)\)", a_)
                        if not m_:
                            continue
                        for d in fl.reaching(m_.group(1), fl.before[id(n)]):
                            if not isinstance(d.value, ast.Call):
                                continue
                            tg = [t for t in P.call_targets(m, d.value, count=False) if isinstance(t, FuncInfo)]
                            ints = [t for t in tg if t.node.returns is not None and
                                    any(str(x) in ("builtin:int", "int") for x in P.ann_types(t.module, t.node.returns))]
                            if ints:
                                ctx.ob("C12.dead-success", m.short(), f"{m_.group(1)}<-{ints[0].name}:truthiness", False,
                                       f"`{unparse(n.test)}` tests the integer result of {ints[0].short()} for truthiness: identifier 0 (the "
                                       "first one the store hands out) counts as failure, so a stored object is answered as refused",
                                       f"{m.module.rel}:{n.lineno}")
    ctx.floor("C12.dead-success", 2)

    # ---- the stored record is what was given
    req = P.cls(f"{LDM}.ldm_classes.AddDataProviderReq")
    for mname in ("to_dict", "__iter__"):
        m = req.methods[mname]
        for d in ast.walk(m.node):
            if not isinstance(d, ast.Dict):
                continue
            for k, v in zip(d.keys, d.values):
                if not (isinstance(k, ast.Constant) and isinstance(k.value, str)):
                    continue
                if isinstance(v, (ast.Dict, ast.IfExp)):
                    continue
                src = dotted(v)
                if src is None or not src.startswith("self."):
                    continue
                last = src.split(".")[-1]
                key = k.value
                want = {snake(key), key}
                alias = {"timestamp": {"timestamp_its"}, "timeValidity": {"time"}, "dataObject": {"data_object"},
                         "relevanceTrafficDirection": {"value"}, "application_id": {"application_id"}}
                ok = last in want or last in alias.get(key, set()) or (last == "value" and snake(key) in src) \
                    or (last == "time" and "time_validity" in src) or (last == "timestamp_its" and "timestamp" in src)
                ctx.ob("C12.record-faithful", m.short(), key, ok,
                       f"record key '{key}' is fed by `{src}`" + ("" if ok else f" - expected the attribute `{snake(key)}`"),
                       f"{m.module.rel}:{v.lineno}")
    ctx.floor("C12.record-faithful", 30)

    # ---- identifiers
    db = P.cls(DB)
    ins = db.methods["insert"]
    ifl = ctx.flows.get(ins)
    COUNTER = "self._next_id"
    if len(ins.params) < 2:
        raise AnalysisError("C12: DictionaryDataBase.insert no longer takes the record")
    p_rec = ins.params[1]
    why = []
    rets = [(k, s_, st) for k, s_, st in ifl.exits if k in ("return", "fall")]
    if not rets:
        why.append("insert has no normal exit")
    # (a) the only change to the store is  store[<counter at entry>] = <the record given>
    stores = []
    for mu in mutations(ifl, ins, "self.database"):
        st = ifl.before.get(id(mu["stmt"]))
        key = mu["steps"][0][1] if len(mu["steps"]) == 1 and mu["steps"][0][0] == "sub" else None
        if mu["kind"] == "store" and key is not None and st is not None:
            kv = counter_value(P, ifl, ins.module, key, st, COUNTER)
            if kv != (1, 0):
                why.append(f"the record is stored under `{unparse(mu['node'].slice)}`, which is not the value the id counter had on entry")
            elif not sem.same(ifl.expand(mu["value"], st), p_rec):
                why.append(f"`{unparse(mu['value'])[:40]}` is stored instead of the record given")
            else:
                stores.append(mu)
        else:
            why.append(f"insert changes the store in another way than adding the record (`{unparse(mu['node'])[:50]}`)")
    if not stores:
        why.append("insert never stores the record under the identifier")
    for k, s_, st in rets:
        where = f"line {s_.lineno}" if s_ is not None else "end of function"
        # (b) the identifier returned is the counter value at entry
        rv = counter_value(P, ifl, ins.module, s_.value, st, COUNTER) if (s_ is not None and s_.value is not None) else None
        if rv != (1, 0):
            why.append(f"the value returned at {where} is not the value the id counter had on entry "
                       "(an identifier derived from anything else, e.g. the store's size, is handed out again after a removal)")
        # (c) the counter has advanced by exactly one
        cv = counter_value(P, ifl, ins.module, ast.parse(COUNTER, mode="eval").body, st, COUNTER)
        if cv != (1, 1):
            why.append(f"at {where} the id counter is not exactly one above its value on entry")
        # (d) the record has certainly been stored
        if stores and not any(certainly_executed(ifl, ins, st, mu["stmt"], s_, "__setitem__") for mu in stores):
            why.append(f"the exit at {where} can be reached without the record having been stored")
    ctx.ob("C12.ids", ins.short(), "allocate", not why,
           "identifier = counter, then counter += 1 (never derived from the store's size)" if not why else
           "identifier allocation is not `id = counter; store[id] = record; counter += 1; return id`: " + "; ".join(dict.fromkeys(why)), ins.loc)
    for m in db.methods.values():
        if m.name in ("__init__", "insert", "delete"):
            continue
        wr = [n for n in ast.walk(m.node) if isinstance(n, ast.Attribute) and n.attr == "_next_id" and isinstance(n.ctx, (ast.Store, ast.Del))]
        ctx.ob("C12.ids", m.short(), "no-counter-write", not wr, f"{m.name} " + ("does not touch the id counter" if not wr else
                                                                                "writes the id counter: identifiers can be reused"), m.loc)
    outside = []
    for f2 in P.iter_funcs():
        if f2.cls is not None and any(c.qual == db.qual for c in f2.cls.mro()):
            continue
        for n in ast.walk(f2.node):
            if isinstance(n, ast.Attribute) and n.attr == "_next_id" and isinstance(n.ctx, (ast.Store, ast.Del)):
                ts = {t for t in P.expr_types(f2, n.value) if isinstance(t, str)}
                if db.qual in ts or not ts:
                    outside.append(f"{f2.short()}:{n.lineno}")
    ctx.ob("C12.ids", db.qual[len("flexstack."):], "counter-private", not outside,
           "the id counter is written only by the store class itself" if not outside else
           f"the id counter is written from outside the store class ({outside[:3]}): identifiers can be reused", db.module.rel)
    # ---- expiry
    gadc = P.func(f"{MT}.get_all_data_containers")
    NOW = "TimestampIts.initialize_with_utc_timestamp_seconds(int(TimeService.time()))"

    def scans_all(f2, fl2, loop) -> bool:
        """`loop` is a for statement ranging over the result of get_all_data_containers() (directly, through a local, or
        through list()/tuple())."""
        if not isinstance(loop, ast.For) or id(loop) not in fl2.before:
            return False
        it = fl2.expand(loop.iter, fl2.before[id(loop)])
        while isinstance(it, ast.Call) and dotted(it.func) in ("list", "tuple") and len(it.args) == 1 and not it.keywords:
            it = it.args[0]
        return isinstance(it, ast.Call) and not it.args and not it.keywords and \
            any(isinstance(t, FuncInfo) and (t is gadc or (t.name == gadc.name and t.cls is not None and gadc.cls in t.cls.mro()))
                for t in P.call_targets(f2, it, count=False))

    def loop_variable(f2, fl2, expr, st):
        """(version token, for statement) when `expr` is the variable of a for loop, else (None, None)."""
        x = fl2.expand(expr, st)
        if not isinstance(x, ast.Name):
            return None, None
        mo = re.match(r"^(.+)@([0-9]+)$", x.id)
        di = fl2.defs.get(int(mo.group(2))) if mo else None
        if di is None or di.kind != "for" or not isinstance(di.stmt, ast.For) or not isinstance(di.stmt.target, ast.Name):
            return None, None
        return x, di.stmt

    ch = P.func(f"{MT}.check_and_delete_time_validity")
    fl = ctx.flows.get(ch)
    del_target = P.func(f"{MT}.del_provider_data")
    dels = [c for c in P.calls_in(ch) if isinstance(c.func, ast.Attribute) and
            any(isinstance(t, FuncInfo) and t.name == del_target.name for t in P.call_targets(ch, c, count=False))]
    for c in dels:
        st = fl.state_at(c)
        obj, loop = loop_variable(ch, fl, c.args[0], st) if len(c.args) == 1 else (None, None)
        same_obj = obj is not None and scans_all(ch, fl, loop)
        ok, seen = False, []
        for f in st.facts:
            if f.kind != "cond" or not f.pol or not isinstance(f.xnode, ast.Compare) or len(f.xnode.ops) != 1:
                continue
            seen.append(pretty(f.xkey))
            # canonical form of `expiry instant < now` is `now > expiry instant`
            if not isinstance(f.xnode.ops[0], ast.Gt) or not sem.same(f.xnode.left, NOW) or obj is None:
                continue
            r = f.xnode.comparators[0]
            if not (isinstance(r, ast.Call) and len(r.args) == 1 and not r.keywords and
                    P.resolve_expr_entity(ch.module, r.func) is P.resolve_expr_entity(ch.module, ast.parse("TimestampIts", mode="eval").body)):
                continue
            member = lambda k: ast.Subscript(value=copy.deepcopy(obj), slice=ast.Constant(k), ctx=ast.Load())
            want = ast.BinOp(left=ast.BinOp(left=member("timeValidity"), op=ast.Mult(), right=ast.Constant(1000)),
                             op=ast.Add(), right=member("timestamp"))
            if to_poly(P, ch.module, r.args[0]) == to_poly(P, ch.module, want):
                ok = True
        ctx.ob("C12.expiry", ch.short(), "predicate", ok,
               "an object is deleted exactly when timestamp + validity (s -> ms) lies before now" if ok else
               f"expiry predicate changed: {seen[:2]}", f"{ch.module.rel}:{c.lineno}")
        ctx.ob("C12.expiry", ch.short(), "deletes-that-object", same_obj,
               "the expired object itself (the one under examination in the scan) is deleted" if same_obj else
               f"`{unparse(c.args[0]) if c.args else ''}` is deleted, which is not the object the scan is examining",
               f"{ch.module.rel}:{c.lineno}")
    if not dels:
        raise AnalysisError("C12: expiry no longer deletes")
    # the back-ends' remove(record) deletes a stored record EQUAL to the one given (the whole record, not some of its members):
    # both garbage collectors hand over the record under examination, and two objects may agree in application id and timestamp
    n_rm = 0
    for bq in (DB, TDB):
        rm = P.func(f"{bq}.remove")
        if len(rm.params) != 2:
            raise AnalysisError(f"C12: {rm.short()} no longer takes (self, record)")
        par = rm.params[1]
        rfl = ctx.flows.get(rm)
        sites = [n_ for n_ in ast.walk(rm.node) if isinstance(n_, ast.Delete) or
                 (isinstance(n_, ast.Call) and isinstance(n_.func, ast.Attribute) and n_.func.attr in ("remove", "pop") and
                  dotted(n_.func.value) == "self.database")]
        for site in sites:
            n_rm += 1
            loops = [f_ for f_ in ast.walk(rm.node) if isinstance(f_, ast.For) and any(site is x for x in ast.walk(f_))]
            tnames = {x.id for f_ in loops for x in ast.walk(f_.target) if isinstance(x, ast.Name)}
            try:
                atoms_ = sem.facts(rfl, site, expanded=False)
            except AnalysisError:
                atoms_ = set()
            whole = {f"eq({a},{b})" for t in tnames for a, b in ((par, t), (t, par), (par, f"dict({t})"), (f"dict({t})", par))}
            ok = bool(atoms_ & whole)
            one = False
            if not ok and isinstance(site, ast.Call):
                # the identifiers may have been selected beforehand: `[d.doc_id for d in ... if dict(d) == record]`
                st_ = rfl.state_at(site)
                for a_ in list(site.args) + [k.value for k in site.keywords]:
                    xa = rfl.expand(a_, st_)
                    for comp in [x for x in ast.walk(xa) if isinstance(x, (ast.ListComp, ast.GeneratorExp, ast.SetComp))]:
                        for g_ in comp.generators:
                            tn = {x.id for x in ast.walk(g_.target) if isinstance(x, ast.Name)}
                            w2 = {f"eq({a},{b})" for t in tn for a, b in ((par, t), (t, par), (par, f"dict({t})"), (f"dict({t})", par))}
                            if any(set(sem.atoms(i_, True)) & w2 for i_ in g_.ifs):
                                ok = True
                    # ... and only the first of them may go: `ids[:1]` / `[ids[0]]`
                    if isinstance(xa, ast.Subscript) and isinstance(xa.slice, ast.Slice) and xa.slice.lower is None and \
                            isinstance(xa.slice.upper, ast.Constant) and xa.slice.upper.value == 1:
                        one = True
                    if isinstance(xa, ast.List) and len(xa.elts) == 1 and isinstance(xa.elts[0], ast.Subscript) and \
                            isinstance(xa.elts[0].slice, ast.Constant) and xa.elts[0].slice.value == 0:
                        one = True
            # one record per call: inside the scan the deletion is followed by the return (first match only)
            for f_ in loops:
                for blk in [x for x in ast.walk(f_) if hasattr(x, "body") and isinstance(getattr(x, "body"), list)]:
                    for fld in ("body", "orelse"):
                        lst = getattr(blk, fld, None) or []
                        for i_, st2 in enumerate(lst):
                            if any(site is x for x in ast.walk(st2)) and isinstance(st2, (ast.Delete, ast.Expr)) and \
                                    any(isinstance(y, ast.Return) for y in lst[i_ + 1:i_ + 2]):
                                one = True
            ctx.ob("C12.expiry", rm.short(), "removes-one-record", one,
                   "one stored record goes per call (the scan returns after the first match)" if one else
                   f"the deletion at line {site.lineno} can take every equal copy at once: a record stored twice and removed once is gone "
                   "from this back-end and still present in the other", f"{rm.module.rel}:{site.lineno}")
            ctx.ob("C12.expiry", rm.short(), "removes-the-equal-record", ok,
                   "a record is deleted only when the whole stored record equals the one given" if ok else
                   f"the deletion at line {site.lineno} is not guarded by `<stored record> == {par}` (guards: {sorted(atoms_)[:3]}): records that "
                   "agree only in some members (same provider, same millisecond) are confused and the wrong object is deleted",
                   f"{rm.module.rel}:{site.lineno}")
    if n_rm < 2:
        raise AnalysisError(f"C12: only {n_rm} deletions found in the back-ends' remove() (confirmed: 2)")
    # every stored object is examined: the scan over the containers has no early exit
    for fn_name in ("check_and_delete_time_validity", "check_and_delete_area_of_maintenance"):
        f2 = P.func(f"{MT}.{fn_name}")
        fl2 = ctx.flows.get(f2)
        loops = [n for n in ast.walk(f2.node) if isinstance(n, (ast.For, ast.While))]
        if not loops:
            raise AnalysisError(f"C12: {fn_name} no longer scans the containers")
        for lp in loops:
            exits = [n for n in ast.walk(lp) if isinstance(n, (ast.Break, ast.Return))]
            over_all = scans_all(f2, fl2, lp)
            ctx.ob("C12.expiry", f2.short(), "scan-is-complete", over_all and not exits,
                   "maintenance examines every stored object (loop over get_all_data_containers() without break/return)" if over_all and not exits else
                   "the maintenance scan can stop early or does not range over all containers: an expired object behind a live one stays in the store",
                   f"{f2.module.rel}:{lp.lineno}")
    # area of maintenance: only objects OUTSIDE the area may be dropped
    am = P.func(f"{MT}.check_and_delete_area_of_maintenance")
    afl = ctx.flows.get(am)
    adel = [c for c in P.calls_in(am) if isinstance(c.func, ast.Attribute) and c.func.attr == "del_provider_data"]
    if not adel:
        raise AnalysisError("C12: area-of-maintenance check no longer deletes")
    for c in adel:
        # a positive must-fact `<relevance distance>.compare_with_int(<distance>)` means: the object lies inside the area
        inside_pos = [f for f in afl.state_at(c).facts if f.kind == "cond" and f.pol and isinstance(f.node, ast.Call)
                      and isinstance(f.node.func, ast.Attribute) and f.node.func.attr == "compare_with_int"]
        ok = not inside_pos
        ctx.ob("C12.area", am.short(), "deletes-outside-only", ok,
               "objects are dropped only when they lie outside the area of maintenance" if ok else
               "an object is deleted when relevance_distance.compare_with_int(distance) is TRUE, i.e. when it lies INSIDE the area of maintenance: "
               "collect_trash (run on every add by the reactive maintenance) removes live objects near the station and keeps the far ones",
               f"{am.module.rel}:{c.lineno}")
    # registry getters hand out the registry itself (or a copy); a cached view must be invalidated by every mutator
    sv = P.cls(SV)
    for reg, getter in (("data_provider_its_aid", "get_data_provider_its_aid"), ("data_consumer_its_aid", "get_data_consumer_its_aid")):
        gf = sv.methods[getter]
        gfl = ctx.flows.get(gf)
        attrs = set()
        for k, s_, st in gfl.exits:
            if k != "return" or s_.value is None:
                continue
            for alt in gfl.alternatives(s_.value, st):
                for n in ast.walk(alt):
                    d = dotted(n) if isinstance(n, ast.Attribute) else None
                    if d and d.startswith("self.") and d.count(".") == 1 and d != "self._lock":
                        attrs.add(d[5:])
        ctx.ob("C12.gated", gf.short(), f"reads-registry:{reg}", reg in attrs or bool(attrs - {reg}),
               f"{getter} returns a value derived from {sorted(attrs)}", gf.loc)
        caches = attrs - {reg}
        mutators = []
        for m in sv.methods.values():
            for n in ast.walk(m.node):
                if isinstance(n, ast.Call) and isinstance(n.func, ast.Attribute) and dotted(n.func.value) == f"self.{reg}" and \
                        n.func.attr in ("add", "discard", "remove", "clear", "update", "pop", "difference_update"):
                    mutators.append(m)
                if isinstance(n, (ast.Assign, ast.AugAssign)) and m.name != "__init__":
                    t = n.targets[0] if isinstance(n, ast.Assign) else n.target
                    if dotted(t) == f"self.{reg}":
                        mutators.append(m)
        for cache in sorted(caches):
            for m in {x.qual: x for x in mutators}.values():
                if m is gf:
                    continue
                inval = any(isinstance(n, ast.Assign) and dotted(n.targets[0]) == f"self.{cache}" for n in ast.walk(m.node))
                ctx.ob("C12.gated", m.short(), f"invalidates:{cache}", inval,
                       f"{m.name} changes {reg} and resets the cached view {cache}" if inval else
                       f"{getter} answers from the cached view `{cache}`, but {m.name} changes {reg} without resetting it: the gate keeps "
                       "seeing a stale registry (a deregistered application is still accepted / a registered one refused)", m.loc)
    # the provider registry and the consumer registry are two objects: every binding of either field is a fresh container
    # of its own (a shared object makes a registered provider a consumer and the other way round)
    regs = ("data_provider_its_aid", "data_consumer_its_aid")
    n_bind = 0
    for m in sv.methods.values():
        for n in ast.walk(m.node):
            tgts = n.targets if isinstance(n, ast.Assign) else [n.target] if isinstance(n, ast.AnnAssign) and n.value is not None else []
            mine = [dotted(t)[5:] for t in tgts if (dotted(t) or "").startswith("self.") and dotted(t)[5:] in regs]
            if not mine:
                continue
            n_bind += len(mine)
            v = n.value
            fresh = (isinstance(v, (ast.Set, ast.SetComp, ast.List, ast.ListComp, ast.Dict)) or
                     (isinstance(v, ast.Call) and isinstance(v.func, ast.Name) and v.func.id in ("set", "list", "frozenset", "dict")) or
                     (isinstance(v, ast.Call) and isinstance(v.func, ast.Attribute) and v.func.attr == "copy" and not v.args))
            shared = len(tgts) > 1 and not isinstance(v, (ast.Constant,)) and not (isinstance(v, ast.Call) and isinstance(v.func, ast.Name) and v.func.id == "frozenset")
            other = [r for r in regs if r not in mine and any(dotted(x) == f"self.{r}" for x in ast.walk(v) if isinstance(x, ast.Attribute))]
            aliased = bool(other) and not (isinstance(v, ast.Call) and ((isinstance(v.func, ast.Name) and v.func.id in ("set", "list", "frozenset")) or
                                                                      (isinstance(v.func, ast.Attribute) and v.func.attr == "copy")))
            ok = fresh and not shared and not aliased
            ctx.ob("C12.gated", m.short(), "registries-separate:" + "+".join(mine), ok,
                   f"{'/'.join(mine)} is bound to a container of its own" if ok else
                   f"{'/'.join(mine)} is bound to an object that another name keeps as well (" +
                   ("one value for several targets" if shared else f"alias of {other}" if aliased else "not a fresh container") +
                   "): registering on one side registers on the other, so the provider / consumer gates no longer separate the roles",
                   f"{m.module.rel}:{n.lineno}")
    if n_bind < 2:
        raise AnalysisError(f"C12: only {n_bind} bindings of the provider / consumer registries found (confirmed: 2)")
    # garbage collection certainly applies the time-validity predicate (must-call on every normal exit)
    ct = P.func(f"{MT}.collect_trash")
    cfl = ctx.flows.get(ct)
    normal = [st for k, s_, st in cfl.exits if k in ("return", "fall")]
    runs = bool(normal) and all(any(f.kind == "call" and ch.qual in f.targets for f in st.facts) for st in normal)
    ctx.ob("C12.expiry", ct.short(), "runs-time-validity", runs,
           "garbage collection applies the time-validity predicate on every path" if runs else
           "collect_trash can finish without having run check_and_delete_time_validity: expired objects stay in the store", ct.loc)
    # ... in every variant of the maintenance: an override of collect_trash runs the check, or hands over to the inherited
    # collect_trash, on every normal exit (a throttle inside the override drops an explicit maintenance run for good)
    for ci_ in [c_ for c_ in P.classes.values() if c_ is not ct.cls and ct.cls in c_.mro() and "collect_trash" in c_.methods]:
        ov = ci_.methods["collect_trash"]
        ofl = ctx.flows.get(ov)
        o_normal = [st for k, s_, st in ofl.exits if k in ("return", "fall")]
        def _runs(st):
            for f in st.facts:
                if f.kind != "call":
                    continue
                if ch.qual in f.targets or ct.qual in f.targets:
                    return True
                fn_ = f.node.func if isinstance(f.node, ast.Call) else None
                if isinstance(fn_, ast.Attribute) and fn_.attr == "collect_trash" and isinstance(fn_.value, ast.Call) and \
                        dotted(fn_.value.func) == "super":
                    return True
            return False
        o_runs = bool(o_normal) and all(_runs(st) for st in o_normal)
        ctx.ob("C12.expiry", ov.short(), "runs-time-validity", o_runs,
               "the overriding collect_trash applies the time-validity predicate (or the inherited pass) on every path" if o_runs else
               "the overriding collect_trash can return without running the time-validity pass: an explicit maintenance run is silently "
               "dropped and expired objects are still answered afterwards", ov.loc)
    # reactive maintenance: adding an object triggers garbage collection; the only admissible guard is the rate limit
    ra = P.func(f"{LDM}.ldm_maintenance_reactive.LDMMaintenanceReactive.add_provider_data")
    rfl = ctx.flows.get(ra)
    trig = [c for c in P.calls_in(ra) if any(isinstance(t, FuncInfo) and (t is ct or (t.name == ct.name and t.cls is not None and ct.cls in t.cls.mro()))
                                             for t in P.call_targets(ra, c, count=False))]
    if not trig:
        ctx.ob("C12.expiry", ra.short(), "reactive-trigger", False,
               "reactive maintenance no longer collects trash from add_provider_data: nothing ever expires", ra.loc)
    for c in trig:
        guards, problems = path_guards(rfl, ra, c)
        for test, pol, gstmt in guards:
            x = rfl.expand(test, rfl.before[id(gstmt)])
            for node, p in cond_atoms(x, pol):
                if not _is_rate_limit(P, ra, node, p):
                    problems.append(f"it is reached only when `{'' if p else 'not '}{pretty(unparse(node))[:70]}` holds")
        ok = not problems
        ctx.ob("C12.expiry", ra.short(), "reactive-trigger", ok,
               "reactive maintenance collects trash from add_provider_data (guarded by the collection interval at most)" if ok else
               "collect_trash() in add_provider_data is guarded by more than the collection interval: " + "; ".join(problems[:3]) +
               " - while that does not hold, expired objects are never removed", f"{ra.module.rel}:{c.lineno}")


CLOCKS = {"time.monotonic", "time.time", "time.perf_counter"}


def _clock(P, fi: FuncInfo, e: ast.AST):
    if isinstance(e, ast.Call) and not e.args and not e.keywords and dotted(e.func):
        n = P._external_name(fi.module, e.func)
        return n if n in CLOCKS else None
    return None


def _is_rate_limit(P, fi: FuncInfo, node: ast.AST, pol: bool) -> bool:
    """`<clock>() - self.<stamp> >= <non-negative constant>` where every store to self.<stamp> in the class hierarchy
    assigns a reading of the same clock: the test of a minimum interval since the last stamped event."""
    if not pol or not isinstance(node, ast.Compare) or len(node.ops) != 1 or not isinstance(node.ops[0], ast.GtE):
        return False
    a, b = node.left, node.comparators[0]
    lim = P.try_fold(fi.module, b, default=None)
    if not isinstance(lim, (int, float)) or isinstance(lim, bool) or lim < 0:
        return False
    if not (isinstance(a, ast.BinOp) and isinstance(a.op, ast.Sub)):
        return False
    clk = _clock(P, fi, a.left)
    d = dotted(a.right)
    if clk is None or d is None or not d.startswith("self.") or d.count(".") != 1 or fi.cls is None:
        return False
    attr = d[5:]
    stamped = 0
    for c in fi.cls.mro():
        for m in c.methods.values():
            for n in ast.walk(m.node):
                tgt = val = None
                if isinstance(n, ast.Assign):
                    for t in n.targets:
                        if dotted(t) == d:
                            tgt, val = t, n.value
                elif isinstance(n, (ast.AnnAssign, ast.AugAssign)) and dotted(n.target) == d:
                    tgt, val = n.target, (n.value if isinstance(n, ast.AnnAssign) else None)
                if tgt is None:
                    continue
                if val is None or _clock(P, m, val) != clk:
                    return False
                stamped += 1
    return stamped > 0


def _why(w, m, loc) -> str:
    """One call chain from m to a direct writer of loc."""
    P = w.prog
    seen, stack = set(), [(m, [m.name])]
    while stack:
        f, path = stack.pop()
        if f.qual in seen:
            continue
        seen.add(f.qual)
        if loc in w.direct.get(f.qual, ()):
            return " -> ".join(path)
        for c in P.calls_in(f):
            for t in P.call_targets(f, c, count=False):
                if isinstance(t, FuncInfo) and loc in w.of(t):
                    stack.append((t, path + [f"{t.cls.name + '.' if t.cls else ''}{t.name}"]))
    return "?"
