"""C12 - LDM behaves as a store of objects with registration gating and expiry.

Decides: which state each IF.LDM.3 / IF.LDM.4 operation may and must touch (transitive write effects); that every
store-mutating call is gated by registration; that an update replaces only the record's content member; that results
tested for success can be successes; that the stored record is fed by the same-named attributes of the request;
identifier allocation discipline; the expiry predicate and the reactive trigger.
Does not decide equivalence with a map model over histories, nor expiry timing.
"""
from __future__ import annotations

import ast
import re

from ..prog import AnalysisError, ClassInfo, FuncInfo, dotted, unparse
from ..match import pretty
from ..summaries import Writes, returns_only_none

PROP = "C12"
LDM = "facilities.local_dynamic_map"
IF3 = f"{LDM}.if_ldm_3.InterfaceLDM3"
IF4 = f"{LDM}.if_ldm_4.InterfaceLDM4"
SV = f"{LDM}.ldm_service.LDMService"
DB = f"{LDM}.dictionary_database.DictionaryDataBase"
TDB = f"{LDM}.tinydb_database.TinyDB"
MT = f"{LDM}.ldm_maintenance.LDMMaintenance"

TRACKED = [(DB, "database"), (DB, "_next_id"), (SV, "data_provider_its_aid"), (SV, "data_consumer_its_aid"),
           (SV, "subscriptions"), (SV, "last_checked_subscriptions_time")]
STORE = {"DictionaryDataBase.database"}
PROV = "LDMService.data_provider_its_aid"
CONS = "LDMService.data_consumer_its_aid"


def norm(s):
    return re.sub(r"\s+", "", s)


def snake(camel: str) -> str:
    return re.sub(r"(?<!^)(?=[A-Z])", "_", camel).lower()


def run(ctx):
    P = ctx.prog
    ctx.explanation = (
        "Effect rules (K7): the transitive write set of every IF.LDM.3/4 entry point over the store dictionary, the id "
        "counter, the two registries and the subscription structures is computed through the resolved call graph (class "
        "hierarchy analysis over both service and maintenance variants, in-memory back-end) and compared with what the "
        "operation may / must touch. Guard rules (K1) put the registration test in front of every store mutation. "
        "Returns-none summaries expose success tests that can never succeed. Forwarding rules compare every key of the "
        "stored record with the request attribute feeding it. The suite mocks the layers below each interface; the rules "
        "follow the real calls.")
    ctx.declined = ["equivalence with a map model over histories", "expiry timing", "TinyDB internals (only its update scope)"]
    w = Writes(ctx, TRACKED)
    if3, if4 = P.cls(IF3), P.cls(IF4)

    def effects(ci, name, must, must_not, rule="C12.effects"):
        m = ci.methods.get(name)
        if m is None:
            raise AnalysisError(f"C12: {ci.name}.{name} vanished")
        ws = w.of(m)
        for loc in must:
            ctx.ob(rule, m.short(), f"must-write:{loc}", loc in ws,
                   f"{name} " + (f"reaches a write of {loc}" if loc in ws else
                                 f"never writes {loc} on any path (transitive writes: {sorted(ws) or 'none'})"), m.loc)
        for loc in must_not:
            ctx.ob(rule, m.short(), f"must-not-write:{loc}", loc not in ws,
                   f"{name} " + (f"does not touch {loc}" if loc not in ws else f"can write {loc}: " + _why(w, m, loc)), m.loc)
    effects(if3, "add_provider_data", STORE, {PROV, CONS})
    effects(if3, "update_provider_data", STORE, {PROV, CONS, "DictionaryDataBase._next_id"})
    effects(if3, "delete_provider_data", STORE, {PROV, CONS, "DictionaryDataBase._next_id"})
    effects(if3, "register_data_provider", {PROV}, STORE | {CONS})
    effects(if3, "deregister_data_provider", {PROV}, STORE | {CONS})
    effects(if4, "register_data_consumer", {CONS}, STORE | {PROV})
    effects(if4, "deregister_data_consumer", {CONS}, STORE | {PROV})
    effects(if4, "request_data_objects", set(), STORE | {PROV, CONS, "DictionaryDataBase._next_id"})
    ctx.floor("C12.effects", 25)

    # ---- gating
    for name, registry, callee_names in (("add_provider_data", "get_data_provider_its_aid", ("add_provider_data",)),
                                         ("update_provider_data", "get_data_provider_its_aid", ("update_provider_data",)),
                                         ("delete_provider_data", "get_data_provider_its_aid", ("del_provider_data", "delete_provider_data"))):
        m = if3.methods[name]
        fl = ctx.flows.get(m)
        n = 0
        for c in P.calls_in(m):
            if isinstance(c.func, ast.Attribute) and c.func.attr in callee_names and "ldm_service" in unparse(c.func.value):
                n += 1
                conds = {norm(pretty(f.xkey)): f.pol for f in fl.state_at(c).facts if f.kind == "cond"}
                ok = conds.get(f"data_provider.application_idinself.ldm_service.{registry}()") is True
                ctx.ob("C12.gated", m.short(), f"{c.func.attr}", ok,
                       f"the store is changed only for a registered provider" if ok else
                       f"{name} reaches the store without testing `application_id in {registry}()`: an unregistered application "
                       f"can change stored objects", f"{m.module.rel}:{c.lineno}")
        if n == 0:
            raise AnalysisError(f"C12: {name} no longer calls the service")
    m = if4.methods["request_data_objects"]
    fl = ctx.flows.get(m)
    for c in P.calls_in(m):
        if isinstance(c.func, ast.Attribute) and c.func.attr == "query":
            conds = {norm(pretty(f.xkey)): f.pol for f in fl.state_at(c).facts if f.kind == "cond"}
            ok = conds.get("data_request.application_idinself.ldm_service.get_data_consumer_its_aid()") is True
            ctx.ob("C12.gated", m.short(), "query", ok, "queries are answered only for registered consumers", f"{m.module.rel}:{c.lineno}")

    # ---- update scope: only the content member of the record is replaced
    for q in (DB, TDB):
        u = P.cls(q).methods["update"]
        src = norm(unparse(u.node))
        if q == DB:
            ok = "self.database[index]['dataObject']=data" in src or "self.database[index][DATA_OBJECT_FIELD_NAME]=data" in src
            whole = "self.database[index]=data" in src
            ctx.ob("C12.update-scope", u.short(), "content-only", ok and not whole,
                   "update replaces only record['dataObject']" if ok and not whole else
                   "update overwrites the WHOLE stored record with the bare message: application id, timestamp, location and "
                   "time validity of the object are lost (the next expiry pass raises KeyError('timeValidity'))", u.loc)
        else:
            ok = "self.database.update({'dataObject':data},doc_ids=[index])" in src or \
                 "self.database.update({DATA_OBJECT_FIELD_NAME:data},doc_ids=[index])" in src
            ctx.ob("C12.update-scope", u.short(), "content-only", ok,
                   "update replaces only the 'dataObject' member of the document" if ok else
                   "update merges the message's top-level keys into the record instead of replacing its 'dataObject' member", u.loc)

    # ---- success tests that cannot succeed
    for ci in (if3, if4):
        for m in ci.methods.values():
            fl = ctx.flows.get(m)
            for n in ast.walk(m.node):
                if isinstance(n, ast.If) and isinstance(n.test, ast.Compare) and isinstance(n.test.ops[0], ast.IsNot) and \
                        isinstance(n.test.comparators[0], ast.Constant) and n.test.comparators[0].value is None and \
                        isinstance(n.test.left, ast.Name):
                    defs = fl.reaching(n.test.left.id, fl.before[id(n)])
                    for d in defs:
                        if isinstance(d.value, ast.Call):
                            tg = [t for t in P.call_targets(m, d.value, count=False) if isinstance(t, FuncInfo)]
                            if tg:
                                dead = all(returns_only_none(P, t) for t in tg)
                                ctx.ob("C12.dead-success", m.short(), f"{n.test.left.id}<-{tg[0].name}", not dead,
                                       f"`{unparse(n.test)}` tests the result of {tg[0].short()}" +
                                       (", which can return a value" if not dead else
                                        ", which returns None on every path: the success branch is dead and the operation "
                                        "always reports failure"), f"{m.module.rel}:{n.lineno}")
    ctx.floor("C12.dead-success", 2)

    # ---- the stored record is what was given
    req = P.cls(f"{LDM}.ldm_classes.AddDataProviderReq")
    for mname in ("to_dict", "__iter__"):
        m = req.methods[mname]
        for d in ast.walk(m.node):
            if not isinstance(d, ast.Dict):
                continue
            for k, v in zip(d.keys, d.values):
                if not (isinstance(k, ast.Constant) and isinstance(k.value, str)):
                    continue
                if isinstance(v, (ast.Dict, ast.IfExp)):
                    continue
                src = dotted(v)
                if src is None or not src.startswith("self."):
                    continue
                last = src.split(".")[-1]
                key = k.value
                want = {snake(key), key}
                alias = {"timestamp": {"timestamp_its"}, "timeValidity": {"time"}, "dataObject": {"data_object"},
                         "relevanceTrafficDirection": {"value"}, "application_id": {"application_id"}}
                ok = last in want or last in alias.get(key, set()) or (last == "value" and snake(key) in src) \
                    or (last == "time" and "time_validity" in src) or (last == "timestamp_its" and "timestamp" in src)
                ctx.ob("C12.record-faithful", m.short(), key, ok,
                       f"record key '{key}' is fed by `{src}`" + ("" if ok else f" - expected the attribute `{snake(key)}`"),
                       f"{m.module.rel}:{v.lineno}")
    ctx.floor("C12.record-faithful", 30)

    # ---- identifiers
    db = P.cls(DB)
    ins = db.methods["insert"]
    fl = ctx.flows.get(ins)
    src = norm(unparse(ins.node))
    ctx.ob("C12.ids", ins.short(), "allocate", "index=self._next_id" in src and "self.database[index]=data" in src and
           "self._next_id+=1" in src and "returnindex" in src, "identifier = counter, then counter += 1 (never derived from the store's size)", ins.loc)
    for m in db.methods.values():
        if m.name in ("__init__", "insert", "delete"):
            continue
        wr = [n for n in ast.walk(m.node) if isinstance(n, ast.Attribute) and n.attr == "_next_id" and isinstance(n.ctx, ast.Store)]
        ctx.ob("C12.ids", m.short(), "no-counter-write", not wr, f"{m.name} " + ("does not touch the id counter" if not wr else
                                                                                "writes the id counter: identifiers can be reused"), m.loc)
    # ---- expiry
    ch = P.func(f"{MT}.check_and_delete_time_validity")
    fl = ctx.flows.get(ch)
    dels = [c for c in P.calls_in(ch) if isinstance(c.func, ast.Attribute) and c.func.attr == "del_provider_data"]
    for c in dels:
        conds = [norm(pretty(f.xkey)) for f in fl.state_at(c).facts if f.kind == "cond" and f.pol]
        ok = any(re.fullmatch(r"TimestampIts\.initialize_with_utc_timestamp_seconds\(int\(TimeService\.time\(\)\)\)>"
                              r"TimestampIts\((data_container\w*\['timeValidity'\]\*1000\+data_container\w*\['timestamp'\]|"
                              r"data_container\w*\['timestamp'\]\+data_container\w*\['timeValidity'\]\*1000)\)", k) for k in conds)
        ctx.ob("C12.expiry", ch.short(), "predicate", ok,
               "an object is deleted exactly when timestamp + validity (s -> ms) lies before now" if ok else
               f"expiry predicate changed: {conds[:2]}", f"{ch.module.rel}:{c.lineno}")
        ctx.ob("C12.expiry", ch.short(), "deletes-that-object", norm(unparse(c.args[0])) == "data_container",
               "the expired object itself is deleted", f"{ch.module.rel}:{c.lineno}")
    if not dels:
        raise AnalysisError("C12: expiry no longer deletes")
    # every stored object is examined: the scan over the containers has no early exit
    for fn_name in ("check_and_delete_time_validity", "check_and_delete_area_of_maintenance"):
        f2 = P.func(f"{MT}.{fn_name}")
        loops = [n for n in ast.walk(f2.node) if isinstance(n, (ast.For, ast.While))]
        if not loops:
            raise AnalysisError(f"C12: {fn_name} no longer scans the containers")
        for lp in loops:
            exits = [n for n in ast.walk(lp) if isinstance(n, (ast.Break, ast.Return))]
            over_all = isinstance(lp, ast.For) and norm(unparse(lp.iter)) == "self.get_all_data_containers()"
            ctx.ob("C12.expiry", f2.short(), "scan-is-complete", over_all and not exits,
                   "maintenance examines every stored object (loop over get_all_data_containers() without break/return)" if over_all and not exits else
                   "the maintenance scan can stop early or does not range over all containers: an expired object behind a live one stays in the store",
                   f"{f2.module.rel}:{lp.lineno}")
    # area of maintenance: only objects OUTSIDE the area may be dropped
    am = P.func(f"{MT}.check_and_delete_area_of_maintenance")
    afl = ctx.flows.get(am)
    adel = [c for c in P.calls_in(am) if isinstance(c.func, ast.Attribute) and c.func.attr == "del_provider_data"]
    if not adel:
        raise AnalysisError("C12: area-of-maintenance check no longer deletes")
    for c in adel:
        facts = [(f.pol, norm(pretty(f.key))) for f in afl.state_at(c).facts if f.kind == "cond"]
        inside_pos = [k for pol, k in facts if pol and "compare_with_int(" in k and not k.startswith("not")]
        ok = not inside_pos
        ctx.ob("C12.area", am.short(), "deletes-outside-only", ok,
               "objects are dropped only when they lie outside the area of maintenance" if ok else
               "an object is deleted when relevance_distance.compare_with_int(distance) is TRUE, i.e. when it lies INSIDE the area of maintenance: "
               "collect_trash (run on every add by the reactive maintenance) removes live objects near the station and keeps the far ones",
               f"{am.module.rel}:{c.lineno}")
    # registry getters hand out the registry itself (or a copy); a cached view must be invalidated by every mutator
    sv = P.cls(SV)
    for reg, getter in (("data_provider_its_aid", "get_data_provider_its_aid"), ("data_consumer_its_aid", "get_data_consumer_its_aid")):
        gf = sv.methods[getter]
        gfl = ctx.flows.get(gf)
        attrs = set()
        for k, s_, st in gfl.exits:
            if k != "return" or s_.value is None:
                continue
            for alt in gfl.alternatives(s_.value, st):
                for n in ast.walk(alt):
                    d = dotted(n) if isinstance(n, ast.Attribute) else None
                    if d and d.startswith("self.") and d.count(".") == 1 and d != "self._lock":
                        attrs.add(d[5:])
        ctx.ob("C12.gated", gf.short(), f"reads-registry:{reg}", reg in attrs or bool(attrs - {reg}),
               f"{getter} returns a value derived from {sorted(attrs)}", gf.loc)
        caches = attrs - {reg}
        mutators = []
        for m in sv.methods.values():
            for n in ast.walk(m.node):
                if isinstance(n, ast.Call) and isinstance(n.func, ast.Attribute) and dotted(n.func.value) == f"self.{reg}" and \
                        n.func.attr in ("add", "discard", "remove", "clear", "update", "pop", "difference_update"):
                    mutators.append(m)
                if isinstance(n, (ast.Assign, ast.AugAssign)) and m.name != "__init__":
                    t = n.targets[0] if isinstance(n, ast.Assign) else n.target
                    if dotted(t) == f"self.{reg}":
                        mutators.append(m)
        for cache in sorted(caches):
            for m in {x.qual: x for x in mutators}.values():
                if m is gf:
                    continue
                inval = any(isinstance(n, ast.Assign) and dotted(n.targets[0]) == f"self.{cache}" for n in ast.walk(m.node))
                ctx.ob("C12.gated", m.short(), f"invalidates:{cache}", inval,
                       f"{m.name} changes {reg} and resets the cached view {cache}" if inval else
                       f"{getter} answers from the cached view `{cache}`, but {m.name} changes {reg} without resetting it: the gate keeps "
                       "seeing a stale registry (a deregistered application is still accepted / a registered one refused)", m.loc)
    ct = P.func(f"{MT}.collect_trash")
    ctx.ob("C12.expiry", ct.short(), "runs-time-validity", "self.check_and_delete_time_validity()" in norm(unparse(ct.node)),
           "garbage collection applies the time-validity predicate", ct.loc)
    ra = P.func(f"{LDM}.ldm_maintenance_reactive.LDMMaintenanceReactive.add_provider_data")
    ctx.ob("C12.expiry", ra.short(), "reactive-trigger", "self.collect_trash()" in norm(unparse(ra.node)),
           "reactive maintenance collects trash from add_provider_data", ra.loc)


def _why(w, m, loc) -> str:
    """One call chain from m to a direct writer of loc."""
    P = w.prog
    seen, stack = set(), [(m, [m.name])]
    while stack:
        f, path = stack.pop()
        if f.qual in seen:
            continue
        seen.add(f.qual)
        if loc in w.direct.get(f.qual, ()):
            return " -> ".join(path)
        for c in P.calls_in(f):
            for t in P.call_targets(f, c, count=False):
                if isinstance(t, FuncInfo) and loc in w.of(t):
                    stack.append((t, path + [f"{t.cls.name + '.' if t.cls else ''}{t.name}"]))
    return "?"
