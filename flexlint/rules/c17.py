"""C17 - DEN service repeats an event's DENM on schedule with a stable, unique identity.

Decides: the GeoBroadcast request built for every DENM (circle sub-type, area centre = the event position of the very
message that is encoded, port 2002, DENM security profile / ITS-AID 37); the counting-loop idiom of the repetition
(ceil(T / i) transmissions, the first one before any wait); where station identity and the action identifier's sequence
number come from (loop-invariant per request, advanced once per request, from state that outlives the message object);
the LDM feed on reception (event position forwarded field by field, decoded message stored, provider registered);
conformance of every DENM value to the DENM ASN.1 module (shared engine with C11).
Does not decide cadence ("every i") nor non-decreasing reference times - clock / timing.
"""
from __future__ import annotations

import ast
import re

from ..prog import AnalysisError, ClassInfo, FuncInfo, dotted, unparse
from ..match import pretty
from . import msgutil as MU

PROP = "C17"
DEN = "facilities.decentralized_environmental_notification_service"
TM = f"{DEN}.denm_transmission_management.DENMTransmissionManagement"
MSG = f"{DEN}.denm_transmission_management.DecentralizedEnvironmentalNotificationMessage"
RX = f"{DEN}.denm_reception_management.DENMReceptionManagement"


def norm(s):
    return re.sub(r"\s+", "", s)


def run(ctx):
    P = ctx.prog
    ctx.explanation = (
        "Provenance rules (K3) on the BTP request built in transmit_denm and on the LDM feed, a counting-loop rule (K10) that "
        "recognises `t = 0; while t < T: send; wait i; t += i` (or range(ceil(T / i))) and nothing else, identity rules on "
        "every store to actionId / stationId, and the DENM part of the ASN.1 schema conformance engine. The loop rule gives "
        "ceil(T / i) for every T and i symbolically; the identity rule is about which state the number is read from and "
        "where that state advances.")
    ctx.declined = ["cadence 'every i' and reference-time monotonicity (timing / clock)"]
    tm = P.cls(TM)
    # ---------------------------------------------------------------- area / request
    tx = tm.methods["transmit_denm"]
    fl = ctx.flows.get(tx)
    reqs = [c for c in P.calls_in(tx) if dotted(c.func) == "BTPDataRequest"]
    if len(reqs) != 1:
        raise AnalysisError(f"C17: {len(reqs)} BTPDataRequest constructions in transmit_denm")
    c = reqs[0]
    st = fl.state_at(c)
    kws = {kw.arg: kw.value for kw in c.keywords if kw.arg}
    loc = f"{tx.module.rel}:{c.lineno}"
    msgvar = tx.params[1]
    enc = norm(pretty(unparse(fl.expand(kws["data"], st))))
    ctx.ob("C17.area", tx.short(), "encodes-the-message", enc == f"self.denm_coder.encode({msgvar}.denm)", f"payload = `{enc}`", loc)
    ctx.ob("C17.area", tx.short(), "length", norm(pretty(unparse(fl.expand(kws["length"], st)))) == f"len({enc})", "length = len(payload)", loc)
    ptt = norm(unparse(kws.get("gn_packet_transport_type", ast.Constant(None))))
    ctx.ob("C17.area", tx.short(), "geobroadcast-circle", "header_type=HeaderType.GEOBROADCAST" in ptt and
           "header_subtype=GeoBroadcastHST.GEOBROADCAST_CIRCLE" in ptt, f"transport type `{ptt}`", loc)
    area = kws.get("gn_area")
    akw = {kw.arg: norm(unparse(kw.value)) for kw in area.keywords if kw.arg} if isinstance(area, ast.Call) else {}
    for fld in ("latitude", "longitude"):
        want = f"{msgvar}.denm['denm']['management']['eventPosition']['{fld}']"
        ctx.ob("C17.area", tx.short(), f"centre-{fld}", akw.get(fld) == want,
               f"area {fld} = `{akw.get(fld)}`; must be the event position of the message being sent (`{want}`)", loc)
    ra = P.try_fold(tx.module, [kw.value for kw in area.keywords if kw.arg == "a"][0]) if isinstance(area, ast.Call) and "a" in akw else None
    ctx.ob("C17.area", tx.short(), "radius-positive", isinstance(ra, int) and ra > 0, f"circle radius a = {ra} m", loc)
    ctx.ob("C17.area", tx.short(), "port", P.try_fold(tx.module, kws.get("destination_port")) == 2002, "DENM BTP port 2002", loc)
    ctx.ob("C17.area", tx.short(), "btp-b", norm(unparse(kws.get("btp_type"))) == "CommonNH.BTP_B", "BTP-B", loc)
    ctx.ob("C17.area", tx.short(), "security", norm(unparse(kws.get("security_profile"))) == "SecurityProfile.DECENTRALIZED_ENVIRONMENTAL_NOTIFICATION_MESSAGE"
           and P.try_fold(tx.module, kws.get("its_aid")) == 37, "DENM security profile, ITS-AID 37", loc)
    sends = [x for x in P.calls_in(tx) if isinstance(x.func, ast.Attribute) and x.func.attr == "btp_data_request"]
    ctx.ob("C17.area", tx.short(), "handed-down-once", len(sends) == 1 and norm(unparse(sends[0].args[0])) == "request", "one hand-over to BTP per DENM", loc)

    # ---------------------------------------------------------------- repetition count
    tr = tm.methods["trigger_denm_messages"]
    req = tr.params[1]
    loops = [n for n in ast.walk(tr.node) if isinstance(n, (ast.While, ast.For))]
    if len(loops) != 1:
        raise AnalysisError(f"C17: repetition loop shape not recognised ({len(loops)} loops)")
    lp = loops[0]
    ok_form, why = False, ""
    if isinstance(lp, ast.While):
        t = lp.test
        if isinstance(t, ast.Compare) and len(t.ops) == 1 and isinstance(t.left, ast.Name):
            cnt = t.left.id
            strict = isinstance(t.ops[0], ast.Lt)
            bound = norm(unparse(t.comparators[0]))
            init = [n for n in tr.node.body if isinstance(n, ast.Assign) and dotted(n.targets[0]) == cnt and n.lineno < lp.lineno]
            init0 = bool(init) and P.try_fold(tr.module, init[-1].value) == 0
            incs = [n for n in lp.body if isinstance(n, ast.AugAssign) and dotted(n.target) == cnt and isinstance(n.op, ast.Add)]
            inc_ok = len(incs) == 1 and norm(unparse(incs[0].value)) == f"{req}.denm_interval"
            other_writes = [n for n in ast.walk(lp) if isinstance(n, (ast.Assign, ast.AugAssign)) and
                            dotted(n.targets[0] if isinstance(n, ast.Assign) else n.target) == cnt and n not in incs]
            txs = [n for n in lp.body if isinstance(n, ast.Expr) and isinstance(n.value, ast.Call) and isinstance(n.value.func, ast.Attribute)
                   and n.value.func.attr == "transmit_denm"]
            nested_tx = [n for n in ast.walk(lp) if isinstance(n, ast.Call) and isinstance(n.func, ast.Attribute) and n.func.attr == "transmit_denm"]
            sleeps = [n for n in lp.body if isinstance(n, ast.Expr) and isinstance(n.value, ast.Call) and (dotted(n.value.func) or "").endswith("sleep")]
            exits = [n for n in ast.walk(lp) if isinstance(n, (ast.Break, ast.Continue, ast.Return))]
            loc = f"{tr.module.rel}:{lp.lineno}"
            ctx.ob("C17.count", tr.short(), "bound", strict and bound == f"{req}.time_period",
                   f"loop runs while `{unparse(t)}`: with a strict `<` against the request's duration T the body runs ceil(T / i) times"
                   if strict and bound == f"{req}.time_period" else f"loop test `{unparse(t)}` does not give ceil(T / i) repetitions", loc)
            ctx.ob("C17.count", tr.short(), "counter", init0 and inc_ok and not other_writes,
                   f"elapsed-time counter starts at 0 and advances by the request's interval once per repetition" if init0 and inc_ok and not other_writes
                   else "the elapsed-time counter is not `0, += denm_interval` exactly once per repetition", loc)
            ctx.ob("C17.count", tr.short(), "one-send-per-iteration", len(txs) == 1 and len(nested_tx) == 1 and not exits,
                   "exactly one unconditional transmission per repetition, no early exit", loc)
            first = bool(txs) and bool(sleeps) and lp.body.index(txs[0]) < lp.body.index(sleeps[0])
            ctx.ob("C17.count", tr.short(), "send-before-wait", first, "the DENM is handed down before the wait (first one at once)", loc)
            slp = norm(unparse(sleeps[0].value.args[0])) if sleeps else ""
            ctx.ob("C17.count", tr.short(), "wait-interval", slp == f"{req}.denm_interval/1000", f"wait = `{slp}` s (interval in ms / 1000)", loc)
            ok_form = True
    if isinstance(lp, ast.For) and isinstance(lp.iter, ast.Call) and dotted(lp.iter.func) == "range" and len(lp.iter.args) == 1:
        # `for _ in range(N)`: N must be ceil(T / i)
        loc = f"{tr.module.rel}:{lp.lineno}"
        N = lp.iter.args[0]
        if isinstance(N, ast.Name):
            ds = [n for n in tr.node.body if isinstance(n, ast.Assign) and dotted(n.targets[0]) == N.id and n.lineno < lp.lineno]
            N = ds[-1].value if ds else N
        T_, I_ = f"{req}.time_period", f"{req}.denm_interval"
        nt = norm(unparse(N))
        ceil_forms = {f"math.ceil({T_}/{I_})", f"ceil({T_}/{I_})", f"-(-{T_}//{I_})", f"({T_}+{I_}-1)//{I_}", f"({T_}+({I_}-1))//{I_}",
                      f"int(math.ceil({T_}/{I_}))", f"-(-{T_}//{I_})"}
        ctx.ob("C17.count", tr.short(), "bound", nt in ceil_forms,
               f"the loop runs range({nt}) times" + (" = ceil(T / i)" if nt in ceil_forms else
                                                    ": not ceil(T / i) - a duration that is not a multiple of the interval loses its last DENM (T < i sends none)"), loc)
        txs = [n for n in lp.body if isinstance(n, ast.Expr) and isinstance(n.value, ast.Call) and isinstance(n.value.func, ast.Attribute)
               and n.value.func.attr == "transmit_denm"]
        nested_tx = [n for n in ast.walk(lp) if isinstance(n, ast.Call) and isinstance(n.func, ast.Attribute) and n.func.attr == "transmit_denm"]
        sleeps = [n for n in lp.body if isinstance(n, ast.Expr) and isinstance(n.value, ast.Call) and (dotted(n.value.func) or "").endswith("sleep")]
        exits = [n for n in ast.walk(lp) if isinstance(n, (ast.Break, ast.Continue, ast.Return))]
        ctx.ob("C17.count", tr.short(), "counter", isinstance(lp.target, ast.Name) and not any(isinstance(n, ast.Name) and n.id == lp.target.id and isinstance(n.ctx, ast.Store)
                                                                                                  for b in lp.body for n in ast.walk(b)),
               "the loop variable is not modified in the body", loc)
        ctx.ob("C17.count", tr.short(), "one-send-per-iteration", len(txs) == 1 and len(nested_tx) == 1 and not exits,
               "exactly one unconditional transmission per repetition, no early exit", loc)
        first = bool(txs) and bool(sleeps) and lp.body.index(txs[0]) < lp.body.index(sleeps[0])
        ctx.ob("C17.count", tr.short(), "send-before-wait", first, "the DENM is handed down before the wait (first one at once)", loc)
        slp = norm(unparse(sleeps[0].value.args[0])) if sleeps else ""
        ctx.ob("C17.count", tr.short(), "wait-interval", slp == f"{req}.denm_interval/1000", f"wait = `{slp}` s (interval in ms / 1000)", loc)
        ok_form = True
    if not ok_form:
        raise AnalysisError("C17: repetition loop is not of the recognised counting form")
    # the message sent in each repetition is built from the request and the vehicle data
    src = norm(unparse(lp))
    ctx.ob("C17.count", tr.short(), "message-from-request", f".fullfill_with_denrequest({req})" in src and ".fullfill_with_vehicle_data(self.vehicle_data)" in src,
           "every repetition is built from the same request and vehicle data", f"{tr.module.rel}:{lp.lineno}")
    rs = tm.methods["request_denm_sending"]
    ctx.ob("C17.count", rs.short(), "thread-per-request", "threading.Thread(target=self.trigger_denm_messages,args=[denm_request])" in norm(unparse(rs.node)),
           "each request gets its own repetition thread", rs.loc)

    # ---------------------------------------------------------------- identity
    msg = P.cls(MSG)
    fv = msg.methods["fullfill_with_vehicle_data"]
    flv = ctx.flows.get(fv)
    for n in ast.walk(fv.node):
        if isinstance(n, ast.Assign) and isinstance(n.targets[0], ast.Subscript):
            key = norm(unparse(n.targets[0]))
            v = norm(pretty(unparse(flv.expand(n.value, flv.before[id(n)]))))
            if key.endswith("['stationId']") or key.endswith("['originatingStationId']"):
                ctx.ob("C17.identity", fv.short(), key.split("['")[-1][:-2], v == "vehicle_data.station_id", f"`{key}` := `{v}`", f"{fv.module.rel}:{n.lineno}")
            if key.endswith("['sequenceNumber']"):
                ctx.ob("C17.identity", fv.short(), "sequenceNumber-source", v == "self.sequence_number",
                       f"actionId.sequenceNumber := `{v}` (the message object's sequence_number attribute)", f"{fv.module.rel}:{n.lineno}")
    # who sets <message>.sequence_number?  It must come from the manager, once per request, outside the repetition loop
    setters = []
    for m in tm.methods.values():
        fm = ctx.flows.get(m)
        for n in ast.walk(m.node):
            if isinstance(n, ast.Assign) and isinstance(n.targets[0], ast.Attribute) and n.targets[0].attr == "sequence_number" and \
                    not (isinstance(n.targets[0].value, ast.Name) and n.targets[0].value.id == "self"):
                setters.append((m, n, fm))
            if isinstance(n, ast.Call):
                tg = [t for t in P.call_targets(m, n, count=False) if isinstance(t, ClassInfo) and t is msg]
                if tg and (n.args or n.keywords):
                    setters.append((m, n, fm))
    per_request = {}
    for m, n, fm in setters:
        per_request[m.name] = (n, fm)
    for path_fn in ("trigger_denm_messages", "send_collision_risk_warning_denm"):
        m = tm.methods[path_fn]
        if path_fn not in per_request:
            ctx.ob("C17.identity", m.short(), "sequence-number-allocated", False,
                   "the DENM built here takes actionId.sequenceNumber from its own freshly created message object (initialised to 0, "
                   "incremented only on that throw-away object): every event of this station carries action id (station, 0) - different "
                   "events are indistinguishable, and DENMTransmissionManagement.sequence_number is never used", m.loc)
            continue
        n, fm = per_request[path_fn]
        val = n.value if isinstance(n, ast.Assign) else (n.args[0] if n.args else n.keywords[0].value)
        lp_here = [x for x in ast.walk(m.node) if isinstance(x, (ast.While, ast.For))]
        inside = any(n in list(ast.walk(x)) for x in lp_here)
        # the value must be loop invariant: a local defined before the loop (or the setter itself outside the loop)
        invariant = True
        defs = []
        if inside and isinstance(val, ast.Name):
            defs = [d for d in ast.walk(m.node) if isinstance(d, ast.Assign) and dotted(d.targets[0]) == val.id]
            invariant = bool(defs) and all(not any(d in list(ast.walk(x)) for x in lp_here) for d in defs)
            src_expr = norm(unparse(defs[0].value)) if defs else ""
        elif inside:
            invariant = False
            src_expr = norm(unparse(val))
        else:
            src_expr = norm(unparse(val))
        ctx.ob("C17.identity", m.short(), "sequence-number-allocated", True, f"sequence number provided by the manager (`{src_expr[:60]}`)", f"{m.module.rel}:{n.lineno}")
        ctx.ob("C17.identity", m.short(), "same-for-all-repetitions", invariant,
               "all repetitions of one request carry the same sequence number (allocated before the loop)" if invariant else
               "the sequence number is (re)allocated inside the repetition loop: repetitions of one event get different action ids",
               f"{m.module.rel}:{n.lineno}")
        # where does the value come from?  either a direct read of manager state or a manager method that returns it
        alloc_fn, alloc_node = m, None
        vnode = defs[0].value if (inside and isinstance(val, ast.Name) and defs) else val
        if isinstance(vnode, ast.Name) and not inside:
            d2 = [d for d in ast.walk(m.node) if isinstance(d, ast.Assign) and dotted(d.targets[0]) == vnode.id]
            vnode = d2[0].value if d2 else vnode
        if isinstance(vnode, ast.Call):
            tg = [t for t in P.call_targets(m, vnode, count=False) if isinstance(t, FuncInfo) and t.cls is tm]
            if tg:
                alloc_fn = tg[0]
        reads = [x for x in ast.walk(alloc_fn.node) if isinstance(x, ast.Attribute) and isinstance(x.ctx, ast.Load) and dotted(x) == "self.sequence_number"]
        writes = [x for x in ast.walk(alloc_fn.node) if isinstance(x, (ast.Assign, ast.AugAssign)) and
                  dotted(x.targets[0] if isinstance(x, ast.Assign) else x.target) == "self.sequence_number"]
        ctx.ob("C17.identity", m.short(), "from-manager-state", bool(reads),
               f"the number is read from DENMTransmissionManagement.sequence_number (in {alloc_fn.short()}), state that outlives the message",
               f"{m.module.rel}:{n.lineno}")
        in_loop = any(w in list(ast.walk(x)) for w in writes for x in lp_here) if alloc_fn is m else inside and not invariant
        adv_ok = False
        for w in writes:
            if isinstance(w, ast.AugAssign):
                adv_ok = isinstance(w.op, ast.Add) and P.try_fold(alloc_fn.module, w.value) == 1
            else:
                outs = []
                for k in (0, 1, 7):
                    class Sub(ast.NodeTransformer):
                        def visit_Attribute(self, a):
                            return ast.Constant(k) if dotted(a) == "self.sequence_number" else a
                    import copy
                    outs.append(P.try_fold(alloc_fn.module, ast.fix_missing_locations(Sub().visit(copy.deepcopy(w.value)))))
                adv_ok = outs == [1, 2, 8]
        ctx.ob("C17.identity", m.short(), "advances-once-per-event", bool(writes) and adv_ok and not in_loop,
               f"handing out a number advances the manager's counter by one, once per event (in {alloc_fn.short()})" if writes and adv_ok and not in_loop
               else "the manager's counter is not advanced by one exactly once per event: two events can get the same action id",
               f"{alloc_fn.module.rel}:{(writes[0].lineno if writes else alloc_fn.node.lineno)}")
        # requests run on their own threads (request_denm_sending): read and advance must be one critical section
        withs = [x for x in ast.walk(alloc_fn.node) if isinstance(x, ast.With)]
        atomic = bool(reads) and bool(writes) and any(all(r in list(ast.walk(wb)) for r in reads) and all(w in list(ast.walk(wb)) for w in writes)
                                                      and any("lock" in norm(unparse(i.context_expr)).lower() for i in wb.items) for wb in withs)
        ctx.ob("C17.identity", m.short(), "allocation-atomic", atomic,
               "read-and-advance of the counter is one critical section (requests run on concurrent threads)" if atomic else
               "the counter is read and advanced without a lock although every request runs on its own thread: two concurrent events can draw the same number",
               f"{alloc_fn.module.rel}:{alloc_fn.node.lineno}")
    # the message-local counter must not override what the manager set before the store
    for n in ast.walk(fv.node):
        if isinstance(n, ast.Assign) and dotted(n.targets[0]) == "self.sequence_number":
            st_store = [x for x in ast.walk(fv.node) if isinstance(x, ast.Assign) and isinstance(x.targets[0], ast.Subscript) and
                        norm(unparse(x.targets[0])).endswith("['sequenceNumber']")]
            ctx.ob("C17.identity", fv.short(), "no-rewrite-before-store", all(n.lineno > x.lineno for x in st_store),
                   "the message object does not change its sequence number before it is written into actionId", f"{fv.module.rel}:{n.lineno}")

    # ---------------------------------------------------------------- LDM feed
    rx = P.cls(RX)
    fd = rx.methods["feed_ldm"]
    ffl = ctx.flows.get(fd)
    lb = [x for x in P.calls_in(fd) if isinstance(x.func, ast.Attribute) and x.func.attr == "location_builder_circle"]
    if len(lb) != 1:
        raise AnalysisError("C17: feed_ldm no longer builds the location with location_builder_circle")
    kws = {kw.arg: norm(unparse(kw.value)) for kw in lb[0].keywords if kw.arg}
    base = "denm['denm']['management']['eventPosition']"
    for k, want in (("latitude", f"{base}['latitude']"), ("longitude", f"{base}['longitude']"), ("altitude", f"{base}['altitude']['altitudeValue']")):
        ctx.ob("C17.feed", fd.short(), k, kws.get(k) == want, f"LDM location {k} = `{kws.get(k)}` (must be the DENM's event position {k})",
               f"{fd.module.rel}:{lb[0].lineno}")
    add = [x for x in P.calls_in(fd) if dotted(x.func) == "AddDataProviderReq"]
    akw = {kw.arg: norm(unparse(kw.value)) for kw in add[0].keywords if kw.arg} if add else {}
    ctx.ob("C17.feed", fd.short(), "object", akw.get("data_object") == "denm" and akw.get("application_id") == "DENM",
           "the decoded DENM itself is stored under the DENM application id", fd.loc)
    ctx.ob("C17.feed", fd.short(), "added", "self.ldm_facility.if_ldm_3.add_provider_data(data)" in norm(unparse(fd.node)), "handed to IF.LDM.3", fd.loc)
    rc = rx.methods["reception_callback"]
    src = norm(unparse(rc.node))
    ctx.ob("C17.feed", rc.short(), "decode-then-feed", "denm=self.denm_coder.decode(btp_indication.data)" in src and "self.feed_ldm(denm)" in src,
           "every received DENM is decoded and fed to the LDM", rc.loc)
    init = rx.methods["__init__"]
    src = norm(unparse(init.node))
    ctx.ob("C17.feed", init.short(), "provider-registered", "register_data_provider(RegisterDataProviderReq(application_id=DENM" in src,
           "the reception manager registers as DENM data provider", init.loc)
    ctx.ob("C17.feed", init.short(), "port", "register_indication_callback_btp(port=2002,callback=self.reception_callback)" in src, "listens on BTP port 2002", init.loc)
    # ---------------------------------------------------------------- schema (DENM part of the C11 engine)
    # only the elements this property speaks about: identity, reference time, event position (the rest of the DENM is C11's)
    M = MU.Messages(ctx)
    mine = ("actionId", "stationId", "originatingStationId", "sequenceNumber", "eventPosition", "referenceTime", "detectionTime")
    MU.check_stores(ctx, M, "DENM", "C17.schema", "C17.schema", only=lambda s: any(k in mine for k in s.path))
    MU.check_reads(ctx, M, "DENM", "C17.schema", [(f"{RX}.feed_ldm", "denm"), (f"{RX}.reception_callback", "denm")])
    ctx.floor("C17.schema", 10)
    ctx.floor("C17.area", 9)
    ctx.floor("C17.count", 6)
