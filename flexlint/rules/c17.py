"""C17 - DEN service repeats an event's DENM on schedule with a stable, unique identity.

Decides: the GeoBroadcast request built for every DENM (area: payload = the DENM coder's encoding of the message,
length = len(payload), GEOBROADCAST / circle sub-type, area centre = the event position of the very message that is
encoded, constant positive radius, port 2002, BTP-B, DENM security profile / ITS-AID 37, one unconditional hand-over to
BTP); the counting-loop idiom of the repetition (count: ceil(T / i) repetitions for every T and i, counter invariant,
exactly one unconditional transmission per repetition and none outside, the transmission before the wait, wait = the
request's interval, every repetition sending a message rebuilt from the same request and the vehicle data, one thread
per request); where station identity and the action identifier's sequence number come from (identity: stationId and
originatingStationId from the vehicle data and sequenceNumber from the message's own field, always stored; that field
fed by the manager's counter - state that outlives the message object -, drawn before the loop so all repetitions share
it, the counter advanced by one once per event, read-and-advance in one critical section); the LDM feed on reception
(feed: listens on port 2002, every received DENM decoded and fed, location = the event position field by field, the
decoded message itself stored under the DENM application id and handed to IF.LDM.3 whenever an LDM is attached,
provider registered, and the record stamped at RECEPTION - its timestamp is the current time, not a time copied from
the message, which would expire a DENM about an ongoing event on arrival); conformance to the DENM ASN.1 module of the
elements this property speaks about - identity, reference / detection time, event position, every store of
fullfill_with_vehicle_data, no float-typed value at an INTEGER position, reader subscripts (schema, shared engine with
C11).
Does not decide cadence ("every i") nor non-decreasing reference times - clock / timing.

Every rule works on resolved calls, arguments bound to parameter names, values expanded through the flow of locals,
guard atoms in force at a call and canonical expression forms - never on the spelling of the source.
"""
from __future__ import annotations

import ast
import math

from ..prog import AnalysisError, ClassInfo, FuncInfo, dotted, unparse
from ..absint import MiniEval, Poly, to_poly
from ..flow import cond_atoms
from ..match import pretty
from .. import sem
from . import msgutil as MU
from .c19 import bind_call, sym_paths

PROP = "C17"
DEN = "facilities.decentralized_environmental_notification_service"
TM = f"{DEN}.denm_transmission_management.DENMTransmissionManagement"
MSG = f"{DEN}.denm_transmission_management.DecentralizedEnvironmentalNotificationMessage"
RX = f"{DEN}.denm_reception_management.DENMReceptionManagement"
SEQ_MAX = 65535            # SequenceNumber ::= INTEGER (0..65535)


# ------------------------------------------------------------------------------------------------ helpers
def _targets(P, fi, call) -> list:
    return P.call_targets(fi, call, count=False)


def _is_method(t, cls_suffix: str, name: str) -> bool:
    return isinstance(t, FuncInfo) and t.name == name and t.cls is not None and (t.cls.qual.endswith("." + cls_suffix) or t.cls.name == cls_suffix)


def _is_class(t, name: str) -> bool:
    return isinstance(t, ClassInfo) and t.name == name


def _calls(P, fi, pred) -> list:
    return [c for c in P.calls_in(fi) if any(pred(t) for t in _targets(P, fi, c))]


def _enum_is(P, mod, e, cls_name: str, member: str) -> bool:
    r = P.resolve_expr_entity(mod, e) if e is not None else None
    return isinstance(r, tuple) and r[0] == "enum" and r[1].name == cls_name and r[2] == member


def _enclosing(fl, node, kinds) -> list:
    out, cur = [], node
    while cur is not None:
        cur = fl.parent.get(id(cur))
        if isinstance(cur, kinds):
            out.append(cur)
    return out


def _terminates(s) -> bool:
    if isinstance(s, (ast.Return, ast.Raise, ast.Continue, ast.Break)):
        return True
    if isinstance(s, ast.If):
        return bool(s.body) and bool(s.orelse) and _block_terminates(s.body) and _block_terminates(s.orelse)
    if isinstance(s, ast.With):
        return _block_terminates(s.body)
    if isinstance(s, ast.Try):
        return _block_terminates(s.body) and all(_block_terminates(h.body) for h in s.handlers)
    return False


def _block_terminates(stmts) -> bool:
    return any(_terminates(s) for s in stmts)


def _reachable(fl, fi, node) -> bool:
    """No statement that always leaves the block precedes `node` in any enclosing block."""
    s = node if isinstance(node, ast.stmt) else fl.stmt_of.get(id(node))
    while s is not None and s is not fi.node:
        par = fl.parent.get(id(s))
        if par is None:
            break
        for fld in ("body", "orelse", "finalbody"):
            blk = getattr(par, fld, None)
            if isinstance(blk, list) and any(x is s for x in blk):
                idx = [i for i, x in enumerate(blk) if x is s][0]
                if _block_terminates(blk[:idx]):
                    return False
        s = par if isinstance(par, (ast.stmt, ast.ExceptHandler)) else fl.stmt_of.get(id(par))
        if isinstance(par, ast.ExceptHandler):
            s = fl.parent.get(id(par))
    return True


def _always(fl, fi, call, allowed=()) -> tuple:
    """(ok, reason): the call is made on every execution of the function (exactly once), apart from guards in `allowed`."""
    if not _reachable(fl, fi, call):
        return False, "the call is unreachable"
    loops = _enclosing(fl, call, (ast.For, ast.While, ast.AsyncFor))
    if loops:
        return False, "the call sits in a loop"
    if _enclosing(fl, call, (ast.ExceptHandler,)):
        return False, "the call sits in an exception handler"
    extra = sem.facts(fl, call) - set(allowed)
    if extra:
        return False, f"the call is only made under {sorted(extra)[:4]}"
    return True, ""


def _origin(fl, e, st):
    """Follow a local through its unique reaching definitions to the expression that was evaluated:
    (expression, statement that evaluated it or None, state before that statement, resolved?)."""
    stmt = None
    for _ in range(12):
        if not isinstance(e, ast.Name):
            break
        ds = fl.reaching(e.id, st)
        if len(ds) != 1 or ds[0].kind != "assign" or ds[0].value is None:
            return e, (ds[0].stmt if len(ds) == 1 else None), st, False
        stmt, e = ds[0].stmt, ds[0].value
        st = fl.before[id(stmt)]
    return e, stmt, st, True


def _inside(node, containers) -> bool:
    return any(node is n for c in containers for n in ast.walk(c))


def _num_kind(P, fi, e) -> str:
    """'int' | 'float' | '?' - static numeric kind of an expression (annotations of callees / attributes, literals, operators)."""
    def typed(x):
        ts = {t for t in P.expr_types(fi, x) if isinstance(t, str)}
        if "builtin:float" in ts:
            return "float"
        if ts and ts <= {"builtin:int", "builtin:bool"}:
            return "int"
        return "?"

    def comb(ks):
        if "float" in ks:
            return "float"
        return "int" if ks and all(k == "int" for k in ks) else "?"
    if isinstance(e, ast.Constant):
        return "float" if isinstance(e.value, float) else ("int" if isinstance(e.value, int) else "?")
    if isinstance(e, ast.Call):
        fn = dotted(e.func) or ""
        if fn in ("int", "len", "ord") or (fn == "round" and len(e.args) == 1) or fn in ("math.floor", "math.ceil", "math.trunc"):
            return "int"
        if fn == "float":
            return "float"
        if fn in ("abs", "min", "max", "sum") and e.args:
            return comb([_num_kind(P, fi, a) for a in e.args])
        return typed(e)
    if isinstance(e, ast.BinOp):
        if isinstance(e.op, ast.Div):
            return "float"
        if isinstance(e.op, (ast.Add, ast.Sub, ast.Mult, ast.FloorDiv, ast.Mod, ast.Pow)):
            return comb([_num_kind(P, fi, e.left), _num_kind(P, fi, e.right)])
        return "?"
    if isinstance(e, ast.UnaryOp):
        return _num_kind(P, fi, e.operand)
    if isinstance(e, ast.IfExp):
        ks = [_num_kind(P, fi, e.body), _num_kind(P, fi, e.orelse)]
        return "float" if "float" in ks else comb(ks)
    if isinstance(e, (ast.Name, ast.Attribute, ast.Subscript)):
        return typed(e)
    return "?"


def run(ctx):
    ctx.explanation = (
        "Provenance rules (K3) on the BTP request built in transmit_denm and on the LDM feed (calls resolved to their "
        "classes / methods, arguments bound to parameter names, values expanded through local definitions), a counting-loop "
        "rule (K10) that recognises `t = 0; while t < T: send; wait i; t += i` (any spelling of test and increment) or "
        "`for _ in range(N)` with N evaluated against ceil(T / i) on a grid of T and i, must-call rules (no guard atom in "
        "force at the call, not in a loop, reachable) for hand-over, feed and registrations, identity rules on the required "
        "stores to stationId / actionId and on the manager's allocator (return value = old counter, stored value = old + 1 "
        "for every 16-bit counter value, one critical section), and the DENM part of the ASN.1 schema conformance engine "
        "plus a numeric-kind rule for INTEGER positions.")
    ctx.declined = ["cadence 'every i' and reference-time monotonicity (timing / clock)"]
    area(ctx)
    tr = count(ctx)
    identity(ctx, tr)
    feed(ctx)
    schema(ctx)


# ------------------------------------------------------------------------------------------------ area / request
def area(ctx):
    P = ctx.prog
    tm = P.cls(TM)
    tx = tm.methods["transmit_denm"]
    fl = ctx.flows.get(tx)
    mod = tx.module
    reqs = _calls(P, tx, lambda t: _is_class(t, "BTPDataRequest"))
    if len(reqs) != 1:
        raise AnalysisError(f"C17: {len(reqs)} BTPDataRequest constructions in transmit_denm")
    c = reqs[0]
    st = fl.state_at(c)
    kws = {k: fl.expand(v, st) for k, v in bind_call(P, tx, c).items()}
    loc = f"{mod.rel}:{c.lineno}"
    con = tx.short()
    msgvar = tx.params[1]
    show = lambda e: pretty(unparse(e))[:90] if e is not None else "<missing>"
    data = kws.get("data")
    enc_ok = False
    if isinstance(data, ast.Call) and any(_is_method(t, "DENMCoder", "encode") for t in _targets(P, tx, data)):
        a = [v for k, v in bind_call(P, tx, data).items()]
        enc_ok = len(a) == 1 and sem.same(a[0], f"{msgvar}.denm")
    ctx.ob("C17.area", con, "encodes-the-message", enc_ok, f"payload = `{show(data)}`; must be the DENM coder's encoding of `{msgvar}.denm`", loc)
    ln = kws.get("length")
    ctx.ob("C17.area", con, "length", isinstance(ln, ast.Call) and dotted(ln.func) == "len" and len(ln.args) == 1 and data is not None
           and sem.same(ln.args[0], data), f"length = `{show(ln)}`; must be len(payload)", loc)
    ptt = kws.get("gn_packet_transport_type")
    pk = bind_call(P, tx, ptt) if isinstance(ptt, ast.Call) and any(_is_class(t, "PacketTransportType") for t in _targets(P, tx, ptt)) else {}
    ctx.ob("C17.area", con, "geobroadcast-circle", _enum_is(P, mod, pk.get("header_type"), "HeaderType", "GEOBROADCAST") and
           _enum_is(P, mod, pk.get("header_subtype"), "GeoBroadcastHST", "GEOBROADCAST_CIRCLE"),
           f"transport type `{show(ptt)}`; must be GEOBROADCAST / GEOBROADCAST_CIRCLE", loc)
    ar = kws.get("gn_area")
    ak = bind_call(P, tx, ar) if isinstance(ar, ast.Call) and any(_is_class(t, "Area") for t in _targets(P, tx, ar)) else {}
    for fld in ("latitude", "longitude"):
        want = f"{msgvar}.denm['denm']['management']['eventPosition']['{fld}']"
        ctx.ob("C17.area", con, f"centre-{fld}", fld in ak and sem.same(ak[fld], want),
               f"area {fld} = `{show(ak.get(fld))}`; must be the event position of the message being sent (`{want}`)", loc)
    ra = P.try_fold(mod, ak["a"]) if "a" in ak else None
    ctx.ob("C17.area", con, "radius-positive", isinstance(ra, int) and not isinstance(ra, bool) and ra > 0, f"circle radius a = {ra} m", loc)
    ctx.ob("C17.area", con, "port", P.try_fold(mod, kws.get("destination_port")) == 2002 if "destination_port" in kws else False,
           f"destination port `{show(kws.get('destination_port'))}`; DENM BTP port is 2002", loc)
    ctx.ob("C17.area", con, "btp-b", _enum_is(P, mod, kws.get("btp_type"), "CommonNH", "BTP_B"), f"BTP type `{show(kws.get('btp_type'))}`; must be BTP-B", loc)
    ctx.ob("C17.area", con, "security", _enum_is(P, mod, kws.get("security_profile"), "SecurityProfile", "DECENTRALIZED_ENVIRONMENTAL_NOTIFICATION_MESSAGE")
           and "its_aid" in kws and P.try_fold(mod, kws["its_aid"]) == 37, "DENM security profile, ITS-AID 37", loc)
    sends = _calls(P, tx, lambda t: _is_method(t, "btp.router.Router", "btp_data_request"))
    ok, why = False, f"{len(sends)} hand-over(s) to BTP"
    if len(sends) == 1:
        a = list(bind_call(P, tx, sends[0]).values())
        if len(a) == 1:
            e, _, _, res = _origin(fl, a[0], fl.state_at(sends[0]))
            ok = e is c
            why = "the request handed down is the one built here" if ok else f"hands down `{show(a[0])}`, not the request built here"
        if ok:
            ok, why2 = _always(fl, tx, sends[0])
            why = why if ok else why2
    ctx.ob("C17.area", con, "handed-down-once", ok, f"one unconditional hand-over to BTP per DENM: {why}", loc)
    ctx.floor("C17.area", 10)


# ------------------------------------------------------------------------------------------------ repetition count
def _ceil_witness(P, fi, args: list, T: str, I: str):
    """First (T, i) for which len(range(*args)) differs from ceil(T / i); None when they agree on the whole grid."""
    def hook(me, call):
        fn = dotted(call.func) or ""
        if fn in ("math.ceil", "ceil", "math.floor", "floor", "math.trunc") and len(call.args) == 1:
            v = me.ev(call.args[0])
            return {"ceil": math.ceil, "floor": math.floor, "trunc": math.trunc}[fn.split(".")[-1]](v)
        return NotImplemented
    for t in list(range(0, 41)) + [99, 100, 101, 999, 1000, 1001, 59999, 60000]:
        for i in list(range(1, 14)) + [100, 250, 1000]:
            ev = MiniEval(P, fi, {T: t, I: i}, hook)
            try:
                got = len(range(*[ev.ev(a) for a in args]))
            except (TypeError, ValueError, ZeroDivisionError):
                return (t, i, "<error>")
            if got != -(-t // i):
                return (t, i, got)
    return None


def count(ctx) -> FuncInfo:
    P = ctx.prog
    tm = P.cls(TM)
    msg = P.cls(MSG)
    tr = tm.methods["trigger_denm_messages"]
    fl = ctx.flows.get(tr)
    mod = tr.module
    req = tr.params[1]
    T, I = f"{req}.time_period", f"{req}.denm_interval"
    con = tr.short()
    poly = lambda e: to_poly(P, mod, e, pretty)
    loops = [n for n in ast.walk(tr.node) if isinstance(n, (ast.While, ast.For))]
    if len(loops) != 1 or not loops[0].body:
        raise AnalysisError(f"C17: repetition loop shape not recognised ({len(loops)} loops)")
    lp = loops[0]
    loc = f"{mod.rel}:{lp.lineno}"
    pre = fl.before[id(lp)]
    body_in = fl.before[id(lp.body[0])]
    top = lambda n: any(n is s for s in lp.body)            # statement directly in the loop body (runs once per repetition)
    assigned = fl.assigned_names(lp.body)
    invariant = not any(a == req or a.startswith(req + ".") for a in assigned)
    exits = [n for n in ast.walk(lp) if isinstance(n, (ast.Break, ast.Continue, ast.Return, ast.Raise))]
    ok_form = False
    if isinstance(lp, ast.While) and not lp.orelse:
        atoms = cond_atoms(lp.test, True)
        cnt = None
        strict = bound_ok = False
        if len(atoms) == 1 and atoms[0][1] is True and isinstance(atoms[0][0], ast.Compare) and isinstance(atoms[0][0].ops[0], (ast.Gt, ast.GtE)):
            cmp_ = atoms[0][0]
            big, small = cmp_.left, cmp_.comparators[0]
            if isinstance(small, ast.Name):
                cnt = small.id
                strict = isinstance(cmp_.ops[0], ast.Gt)
                bound_ok = sem.same(fl.expand(big, body_in), T)
        if cnt is None:
            raise AnalysisError("C17: repetition loop is not of the recognised counting form (`while <counter> < <bound>`)")
        ok_form = True
        good = strict and bound_ok and invariant
        ctx.ob("C17.count", con, "bound", good,
               f"loop runs while `{unparse(lp.test)}`: with a strict `<` against the request's duration T the body runs ceil(T / i) times"
               if good else f"loop test `{unparse(lp.test)}` does not give ceil(T / i) repetitions (needs `counter < {T}`, T unchanged in the loop)", loc)
        init = fl.reaching(cnt, pre)
        init0 = len(init) == 1 and init[0].kind == "assign" and init[0].value is not None and P.try_fold(mod, init[0].value) == 0 and \
            not isinstance(P.try_fold(mod, init[0].value), bool)
        writes = [n for n in ast.walk(lp) if isinstance(n, (ast.Assign, ast.AugAssign, ast.AnnAssign)) and
                  any(isinstance(x, ast.Name) and x.id == cnt and isinstance(x.ctx, ast.Store)
                      for t in (n.targets if isinstance(n, ast.Assign) else [n.target]) for x in ast.walk(t))]
        inc_ok = False
        if len(writes) == 1 and top(writes[0]):
            w = writes[0]
            ws = fl.before[id(w)]
            if isinstance(w, ast.AugAssign) and isinstance(w.op, ast.Add) and isinstance(w.target, ast.Name):
                inc_ok = poly(fl.expand(w.value, ws)) == poly(ast.parse(I, mode="eval").body)
            elif isinstance(w, ast.Assign) and len(w.targets) == 1 and isinstance(w.targets[0], ast.Name):
                inc_ok = poly(fl.expand(w.value, ws)) - Poly.atom(cnt) == poly(ast.parse(I, mode="eval").body)
        ctx.ob("C17.count", con, "counter", init0 and inc_ok and invariant,
               "elapsed-time counter starts at 0 and advances by the request's interval once per repetition" if init0 and inc_ok and invariant
               else "the elapsed-time counter is not `0, += denm_interval` exactly once per repetition", loc)
    elif isinstance(lp, ast.For) and not lp.orelse and isinstance(lp.iter, ast.Call) and dotted(lp.iter.func) == "range" and \
            1 <= len(lp.iter.args) <= 3 and not lp.iter.keywords:
        ok_form = True
        args = [fl.expand(a, pre) for a in lp.iter.args]
        try:
            wit = _ceil_witness(P, tr, args, T, I)
        except AnalysisError as e:
            raise AnalysisError(f"C17: repetition count `{unparse(lp.iter)}` cannot be evaluated: {e}")
        ctx.ob("C17.count", con, "bound", wit is None,
               f"the loop runs range({', '.join(pretty(unparse(a)) for a in args)}) times" + (" = ceil(T / i) for every T and i of the grid" if wit is None else
               f": for T = {wit[0]} ms and i = {wit[1]} ms that is {wit[2]} repetition(s), ceil(T / i) = {-(-wit[0] // wit[1])} - a duration that is "
               "not a multiple of the interval loses its last DENM (T < i sends none)"), loc)
        tg = [x.id for x in ast.walk(lp.target) if isinstance(x, ast.Name)]
        ctx.ob("C17.count", con, "counter", not any(t in assigned - set(tg) for t in tg) and
               not any(isinstance(n, ast.Name) and n.id in tg and isinstance(n.ctx, ast.Store) for b in lp.body for n in ast.walk(b)),
               "the loop variable is not modified in the body", loc)
    if not ok_form:
        raise AnalysisError("C17: repetition loop is not of the recognised counting form")
    # one unconditional transmission per repetition, before the wait
    tx_fn = tm.methods["transmit_denm"]
    all_tx = _calls(P, tr, lambda t: t is tx_fn)
    in_tx = [c for c in all_tx if _inside(c, [lp])]
    tx_stmt = [s for s in lp.body if isinstance(s, ast.Expr) and in_tx and s.value is in_tx[0]]
    one = len(all_tx) == 1 and len(in_tx) == 1 and len(tx_stmt) == 1 and not exits
    ctx.ob("C17.count", con, "one-send-per-iteration", one,
           "exactly one unconditional transmission per repetition, none outside the loop, no early exit" if one else
           f"{len(in_tx)} transmission(s) in the loop ({len(all_tx)} in the function), {len(exits)} early exit(s); "
           "the transmission must be an unconditional statement of the loop body", loc)
    sleeps = [c for c in P.calls_in(tr) if any(isinstance(t, str) and t == "ext:time.sleep" for t in _targets(P, tr, c))]
    s_stmt = [s for s in lp.body if isinstance(s, ast.Expr) and any(s.value is c for c in sleeps)]
    first = one and len(sleeps) == len(s_stmt) and bool(s_stmt) and all(
        [i for i, s in enumerate(lp.body) if s is tx_stmt[0]][0] < [i for i, s in enumerate(lp.body) if s is ss][0] for ss in s_stmt)
    ctx.ob("C17.count", con, "send-before-wait", first,
           "the DENM is handed down before the wait (first one at once)" if first else
           "a wait can come before the transmission (or is conditional / outside the loop): the first DENM is delayed", loc)
    wait = None
    for ss in s_stmt:
        a = list(bind_call(P, tr, ss.value).values())
        p_ = poly(fl.expand(a[0], fl.before[id(ss)])) if len(a) == 1 else None
        wait = p_ if wait is None or p_ is None else wait + p_
    want = poly(ast.parse(f"{I} / 1000", mode="eval").body)
    ctx.ob("C17.count", con, "wait-interval", wait is not None and wait == want and invariant,
           f"wait per repetition = {wait!r} s; must be the request's interval in ms / 1000 ({want!r})", loc)
    # the message sent in each repetition is a fresh one, built from the request and the vehicle data
    ok_msg, why = False, "no transmission recognised"
    if one:
        send = in_tx[0]
        sst = fl.state_at(send)
        a = list(bind_call(P, tr, send).values())
        mv = a[0].id if len(a) == 1 and isinstance(a[0], ast.Name) else None
        ds = fl.reaching(mv, sst) if mv else []
        # a DENM object of its own for this request (created per repetition or once before the loop; every element is
        # re-filled by the two fullfill_* calls of each repetition)
        fresh = len(ds) == 1 and ds[0].kind == "assign" and isinstance(ds[0].value, ast.Call) and \
            (top(ds[0].stmt) or any(ds[0].stmt is s_ for s_ in tr.node.body)) and any(t is msg for t in _targets(P, tr, ds[0].value))
        got = {}
        for f in sst.facts:
            if f.kind != "call" or not isinstance(f.node, ast.Call) or not isinstance(f.node.func, ast.Attribute):
                continue
            if not (isinstance(f.node.func.value, ast.Name) and f.node.func.value.id == mv and _inside(f.node, [lp])):
                continue
            for nm in ("fullfill_with_denrequest", "fullfill_with_vehicle_data"):
                if any(t == msg.methods[nm].qual for t in f.targets):
                    b = list(bind_call(P, tr, f.node).values())
                    got[nm] = len(b) == 1 and sem.same(fl.expand(b[0], fl.state_at(f.node)), req if nm == "fullfill_with_denrequest" else "self.vehicle_data")
        ok_msg = fresh and got.get("fullfill_with_denrequest") is True and got.get("fullfill_with_vehicle_data") is True and invariant
        why = (f"message object of this request: {fresh}; filled from the request: {got.get('fullfill_with_denrequest')}; "
               f"filled from self.vehicle_data: {got.get('fullfill_with_vehicle_data')}")
    ctx.ob("C17.count", con, "message-from-request", ok_msg,
           "every repetition sends a message (re)built from the same request and the vehicle data" if ok_msg else why, loc)
    # each request gets its own thread running the repetition
    rs = tm.methods["request_denm_sending"]
    rfl = ctx.flows.get(rs)
    ths = [c for c in P.calls_in(rs) if any(isinstance(t, str) and t == "ext:threading.Thread" for t in _targets(P, rs, c))]
    ok_t, why = False, f"{len(ths)} thread construction(s)"
    if len(ths) == 1:
        th = ths[0]
        k = {kw.arg: rfl.expand(kw.value, rfl.state_at(th)) for kw in th.keywords if kw.arg}
        tgt = k.get("target")
        is_tr = isinstance(tgt, ast.Attribute) and isinstance(tgt.value, ast.Name) and tgt.value.id == rs.params[0] and tm.find_method(tgt.attr) is tr
        a, kw = k.get("args"), k.get("kwargs")
        arg_ok = (isinstance(a, (ast.List, ast.Tuple)) and len(a.elts) == 1 and sem.same(a.elts[0], rs.params[1]) and kw is None) or \
                 (a is None and isinstance(kw, ast.Dict) and len(kw.keys) == 1 and isinstance(kw.keys[0], ast.Constant) and
                  kw.keys[0].value == tr.params[1] and sem.same(kw.values[0], rs.params[1]))
        starts = [c for c in P.calls_in(rs) if isinstance(c.func, ast.Attribute) and c.func.attr == "start" and not c.args and
                  _origin(rfl, c.func.value, rfl.state_at(c))[0] is th]
        started = len(starts) == 1 and _always(rfl, rs, starts[0])[0] and _always(rfl, rs, th)[0]
        ok_t = is_tr and arg_ok and started
        why = f"target is the repetition method: {is_tr}; argument is the request: {arg_ok}; started unconditionally: {started}"
    ctx.ob("C17.count", rs.short(), "thread-per-request", ok_t, "each request gets its own repetition thread" if ok_t else why, rs.loc)
    ctx.floor("C17.count", 7)
    return tr


# ------------------------------------------------------------------------------------------------ identity
def _allocator(ctx, tm, fn: FuncInfo) -> dict:
    """Analysis of a manager method that hands out a sequence number: every path returns the counter value found at entry and
    stores counter + 1 (wrapping inside 0..65535), read and store inside one critical section."""
    P = ctx.prog
    out = {"reads": False, "advance": False, "atomic": False, "why": ""}
    try:
        paths = [p for p in sym_paths(fn) if p.kind != "raise"]
    except AnalysisError as e:
        out["why"] = f"allocator body not analysable: {e}"
        return out
    me = fn.params[0]
    ctr = f"{me}.sequence_number"
    out["reads"] = bool(paths) and all(p.value is not None and sem.same(p.value, ctr) for p in paths)
    adv = bool(paths)
    for p in paths:
        sts = p.stored(ctr)
        if len(sts) != 1:
            adv = False
            out["why"] = f"{len(sts)} store(s) to {ctr} on a path"
            break
        expr = sts[0][0]
        for k in range(0, SEQ_MAX + 1):
            try:
                v = MiniEval(P, fn, {ctr: k}).ev(expr)
            except AnalysisError as e:
                v = None
                out["why"] = str(e)
            want = k + 1 if k < SEQ_MAX else None
            if v is None or isinstance(v, bool) or not isinstance(v, int) or not (0 <= v <= SEQ_MAX) or (want is not None and v != want) or v == k:
                adv = False
                out["why"] = out["why"] or f"counter {k} is followed by {v}"
                break
        if not adv:
            break
    out["advance"] = adv
    # one critical section around every access to the counter
    fl = ctx.flows.get(fn)
    acc = [n for n in ast.walk(fn.node) if isinstance(n, ast.Attribute) and dotted(n) == ctr]
    common = None
    for n in acc:
        ws = {id(w) for w in _enclosing(fl, n, (ast.With,)) if any(fl.lock_key(i.context_expr) is not None for i in w.items)}
        common = ws if common is None else common & ws
    out["atomic"] = bool(acc) and bool(common)
    return out


def identity(ctx, tr: FuncInfo):
    P = ctx.prog
    tm = P.cls(TM)
    msg = P.cls(MSG)
    M = MU.Messages(ctx)
    fv = msg.methods["fullfill_with_vehicle_data"]
    flv = ctx.flows.get(fv)
    vd = fv.params[1]
    me = fv.params[0]
    # ---- required stores of fullfill_with_vehicle_data (absence fails)
    required = [(["header", "stationId"], "stationId", f"{vd}.station_id"),
                (["denm", "management", "actionId", "originatingStationId"], "originatingStationId", f"{vd}.station_id"),
                (["denm", "management", "actionId", "sequenceNumber"], "sequenceNumber-source", f"{me}.sequence_number")]
    mine = [s for s in M.stores("DENM") if s.fi.qual == fv.qual]
    seq_store_ok = True
    for path, disc, want in required:
        ss = [s for s in mine if s.path == path]
        if not ss:
            ctx.ob("C17.identity", fv.short(), disc, False,
                   f"no store into DENM.{'.'.join(path)} in {fv.name}: the element keeps the template value 0 "
                   f"(stores made: {sorted('.'.join(map(str, s.path)) for s in mine)})", fv.loc)
            if disc.startswith("sequenceNumber"):
                seq_store_ok = False
            continue
        for s in ss:
            st = flv.before[id(s.stmt)]
            v = flv.expand(s.value, st)
            al, why = _always(flv, fv, s.stmt)
            ok = sem.same(v, want) and al
            ctx.ob("C17.identity", fv.short(), disc, ok,
                   f"DENM.{'.'.join(path)} := `{pretty(unparse(v))}`; must be `{want}`" + ("" if al else f" ({why})"), f"{fv.module.rel}:{s.stmt.lineno}")
            if disc.startswith("sequenceNumber"):
                untouched = f"{me}.sequence_number" not in st.defs
                ctx.ob("C17.identity", fv.short(), "no-rewrite-before-store", untouched,
                       "the message object does not change its sequence number before it is written into actionId", f"{fv.module.rel}:{s.stmt.lineno}")
    # ---- every DENM handed to transmit_denm: who sets <message>.sequence_number?
    tx_fn = tm.methods["transmit_denm"]
    sites = []
    for m in tm.methods.values():
        for c in _calls(P, m, lambda t: t is tx_fn):
            if m is not tx_fn:
                sites.append((m, c))
    if len(sites) < 2:
        raise AnalysisError(f"C17: {len(sites)} hand-over(s) to transmit_denm found in the manager (confirmed: 2)")
    alloc_cache = {}
    for m, send in sites:
        fl = ctx.flows.get(m)
        con = m.short()
        loc = f"{m.module.rel}:{send.lineno}"
        sst = fl.state_at(send)
        a = list(bind_call(P, m, send).values())
        mv = a[0].id if len(a) == 1 and isinstance(a[0], ast.Name) else None
        ds = fl.reaching(mv, sst) if mv else []
        is_msg = len(ds) == 1 and ds[0].kind == "assign" and isinstance(ds[0].value, ast.Call) and any(t is msg for t in _targets(P, m, ds[0].value))
        vcall = None
        for f in sst.facts:
            if f.kind == "call" and isinstance(f.node, ast.Call) and isinstance(f.node.func, ast.Attribute) and \
                    isinstance(f.node.func.value, ast.Name) and f.node.func.value.id == mv and any(t == fv.qual for t in f.targets):
                vcall = f.node
        seq = fl.reaching(f"{mv}.sequence_number", fl.state_at(vcall)) if vcall is not None else []
        allocated = is_msg and vcall is not None and len(seq) == 1 and seq[0].kind == "assign" and seq[0].value is not None
        if not allocated:
            ctx.ob("C17.identity", con, "sequence-number-allocated", False,
                   "the DENM built here takes actionId.sequenceNumber from its own freshly created message object (initialised to 0, "
                   "incremented only on that throw-away object): every event of this station carries action id (station, 0) - different "
                   "events are indistinguishable, and DENMTransmissionManagement.sequence_number is never used"
                   if is_msg and vcall is not None else
                   "the message handed to transmit_denm is not a fresh DENM filled with the vehicle data on every path", loc)
            continue
        store = seq[0].stmt
        e, ostmt, ost, resolved = _origin(fl, seq[0].value, fl.before[id(store)])
        ostmt = ostmt or store
        ctx.ob("C17.identity", con, "sequence-number-allocated", True,
               f"sequence number provided by the manager (`{pretty(unparse(e))[:60]}`)", f"{m.module.rel}:{store.lineno}")
        loops = _enclosing(fl, send, (ast.While, ast.For))
        inv = resolved and not _inside(ostmt, loops)
        ctx.ob("C17.identity", con, "same-for-all-repetitions", inv,
               "all repetitions of one request carry the same sequence number (drawn before the loop)" if inv else
               "the sequence number is drawn inside the repetition loop: repetitions of one event get different action ids",
               f"{m.module.rel}:{ostmt.lineno}")
        afn = None
        if isinstance(e, ast.Call):
            tg = [t for t in P.call_targets(m, e, count=False, cha=False) if isinstance(t, FuncInfo) and t.cls is tm]
            afn = tg[0] if len(tg) == 1 else None
        if afn is not None:
            if afn.qual not in alloc_cache:
                alloc_cache[afn.qual] = _allocator(ctx, tm, afn)
            r = alloc_cache[afn.qual]
            where = afn.short()
            aloc = afn.loc
        else:
            direct = sem.same(e, f"{m.params[0]}.sequence_number")
            r = {"reads": direct, "advance": False, "atomic": False,
                 "why": f"`{pretty(unparse(e))[:60]}` is not a call of a manager method that hands out and advances the counter"}
            where, aloc = con, f"{m.module.rel}:{ostmt.lineno}"
        ctx.ob("C17.identity", con, "from-manager-state", r["reads"],
               f"the number handed out is the value of DENMTransmissionManagement.sequence_number (in {where}), state that outlives the message"
               if r["reads"] else f"the number is not the manager's counter value: {r['why'] or 'a path returns something else'}", aloc)
        ctx.ob("C17.identity", con, "advances-once-per-event", r["advance"] and inv,
               f"handing out a number advances the manager's counter by one inside 0..{SEQ_MAX}, once per event (in {where})" if r["advance"] and inv
               else f"the manager's counter is not advanced by one exactly once per event: two events can get the same action id ({r['why']})", aloc)
        ctx.ob("C17.identity", con, "allocation-atomic", r["atomic"],
               "read-and-advance of the counter is one critical section (requests run on concurrent threads)" if r["atomic"] else
               "the counter is read and advanced without a common lock although every request runs on its own thread: two concurrent "
               "events can draw the same number", aloc)
    ctx.floor("C17.identity", 14)


# ------------------------------------------------------------------------------------------------ LDM feed
def feed(ctx):
    P = ctx.prog
    rx = P.cls(RX)
    fd = rx.methods["feed_ldm"]
    ffl = ctx.flows.get(fd)
    me, dv = fd.params[0], fd.params[1]
    ldm_ok = set(sem.want(f"{me}.ldm_facility is not None")) | set(sem.want(f"{me}.ldm_facility"))
    show = lambda e: pretty(unparse(e))[:100] if e is not None else "<missing>"
    lb = _calls(P, fd, lambda t: _is_method(t, "Location", "location_builder_circle"))
    if len(lb) != 1:
        raise AnalysisError("C17: feed_ldm no longer builds the location with location_builder_circle")
    lk = {k: ffl.expand(v, ffl.state_at(lb[0])) for k, v in bind_call(P, fd, lb[0]).items()}
    base = f"{dv}['denm']['management']['eventPosition']"
    for k, want in (("latitude", f"{base}['latitude']"), ("longitude", f"{base}['longitude']"), ("altitude", f"{base}['altitude']['altitudeValue']")):
        ctx.ob("C17.feed", fd.short(), k, k in lk and sem.same(lk[k], want),
               f"LDM location {k} = `{show(lk.get(k))}` (must be the DENM's event position {k}, `{want}`)", f"{fd.module.rel}:{lb[0].lineno}")
    add = _calls(P, fd, lambda t: _is_class(t, "AddDataProviderReq"))
    denm_const = P.module("facilities.local_dynamic_map.ldm_constants").consts.get("DENM")

    def is_denm_id(mod, e):
        if e is None or denm_const is None:
            return False
        r = P.resolve_expr_entity(mod, e)
        if isinstance(r, tuple) and r[0] == "const" and r[2] is denm_const:
            return True
        # by value (the loader reads numeric module constants as their values)
        want = P.try_fold(P.module("facilities.local_dynamic_map.ldm_constants"), denm_const)
        return want is not None and P.try_fold(mod, e) == want
    ok_obj = False
    ak = {}
    if len(add) == 1:
        ak = {k: ffl.expand(v, ffl.state_at(add[0])) for k, v in bind_call(P, fd, add[0]).items()}
        loc_ok = "location" in ak and _origin(ffl, bind_call(P, fd, add[0])["location"], ffl.state_at(add[0]))[0] is lb[0]
        ok_obj = "data_object" in ak and sem.same(ak["data_object"], dv) and is_denm_id(fd.module, bind_call(P, fd, add[0]).get("application_id")) and loc_ok
    ctx.ob("C17.feed", fd.short(), "object", ok_obj,
           f"data_object = `{show(ak.get('data_object'))}`, application_id = `{show(ak.get('application_id'))}`: the decoded DENM itself must be "
           "stored under the DENM application id with the location built from its event position", fd.loc)
    # the record's validity counts from RECEPTION: its timestamp is the current time, nothing taken from the message
    # (a timestamp copied from detectionTime / referenceTime makes an event that has been going on for longer than the
    # validity expired on arrival - stored and purged in the same call)
    ts = ak.get("timestamp")
    ts_from_msg = ts is not None and any(isinstance(n_, ast.Name) and n_.id == dv for n_ in ast.walk(ts))
    ts_now = ts is not None and isinstance(ts, ast.Call) and not ts_from_msg and \
        (dotted(ts.func) or "").split(".")[-1] in ("initialize_with_utc_timestamp_seconds", "TimestampIts", "now") and \
        all("time" in (dotted(getattr(a_, "func", a_)) or "time").lower() for a_ in ts.args)
    ctx.ob("C17.feed", fd.short(), "stamped-at-reception", len(add) == 1 and ts_now,
           f"record timestamp = `{show(ts)}` (the reception time)" if ts_now else
           f"record timestamp = `{show(ts)}`: not the reception time - the record's validity is counted from a time inside the message, so a "
           "DENM about an ongoing event is expired on arrival and never kept at its event position", fd.loc)
    puts = _calls(P, fd, lambda t: isinstance(t, FuncInfo) and t.name == "add_provider_data")
    ok_add, why = False, f"{len(puts)} call(s) of add_provider_data"
    if len(puts) == 1 and len(add) == 1:
        a = list(bind_call(P, fd, puts[0]).values())
        ok_add = len(a) == 1 and _origin(ffl, a[0], ffl.state_at(puts[0]))[0] is add[0] and \
            sem.same(puts[0].func.value if isinstance(puts[0].func, ast.Attribute) else ast.Constant(None), f"{me}.ldm_facility.if_ldm_3")
        why = "" if ok_add else f"`{show(puts[0])}` does not hand the request built here to {me}.ldm_facility.if_ldm_3"
        if ok_add:
            ok_add, why = _always(ffl, fd, puts[0], ldm_ok)
    ctx.ob("C17.feed", fd.short(), "added", ok_add, "handed to IF.LDM.3 whenever an LDM is attached" if ok_add else f"not always handed to IF.LDM.3: {why}", fd.loc)
    # every received DENM is decoded and fed
    init = rx.methods["__init__"]
    ifl = ctx.flows.get(init)
    regs = _calls(P, init, lambda t: _is_method(t, "btp.router.Router", "register_indication_callback_btp"))
    rc = None
    ok_port, why = False, f"{len(regs)} registration(s) with the BTP router"
    if len(regs) == 1:
        rk = {k: ifl.expand(v, ifl.state_at(regs[0])) for k, v in bind_call(P, init, regs[0]).items()}
        cb = bind_call(P, init, regs[0]).get("callback")
        if isinstance(cb, ast.Attribute) and isinstance(cb.value, ast.Name) and cb.value.id == init.params[0]:
            rc = rx.find_method(cb.attr)
        al, why2 = _always(ifl, init, regs[0])
        ok_port = P.try_fold(init.module, rk.get("port")) == 2002 and rc is not None and al
        why = f"port `{show(rk.get('port'))}`, callback `{show(cb)}`" + ("" if al else f", {why2}")
    ctx.ob("C17.feed", init.short(), "port", ok_port, "listens on BTP port 2002 with its reception callback" if ok_port else why, init.loc)
    if rc is None:
        rc = rx.methods["reception_callback"]
    rfl = ctx.flows.get(rc)
    feeds = _calls(P, rc, lambda t: t is fd)
    ok_feed, why = False, f"{len(feeds)} call(s) of feed_ldm in {rc.name}"
    if len(feeds) == 1:
        a = list(bind_call(P, rc, feeds[0]).values())
        x = rfl.expand(a[0], rfl.state_at(feeds[0])) if len(a) == 1 else None
        dec = isinstance(x, ast.Call) and any(_is_method(t, "DENMCoder", "decode") for t in _targets(P, rc, x))
        da = list(bind_call(P, rc, x).values()) if dec else []
        dec = dec and len(da) == 1 and sem.same(da[0], f"{rc.params[1]}.data")
        al, why2 = _always(rfl, rc, feeds[0])
        ok_feed = dec and al
        why = (f"feeds `{show(x)}`" if not dec else "") + ("" if al else why2)
    ctx.ob("C17.feed", rc.short(), "decode-then-feed", ok_feed,
           "every received DENM is decoded and fed to the LDM" if ok_feed else f"not every received DENM is decoded and fed to the LDM: {why}", rc.loc)
    rdp = _calls(P, init, lambda t: isinstance(t, FuncInfo) and t.name == "register_data_provider")
    ok_reg, why = False, f"{len(rdp)} call(s) of register_data_provider"
    if len(rdp) == 1:
        a = list(bind_call(P, init, rdp[0]).values())
        x = ifl.expand(a[0], ifl.state_at(rdp[0])) if len(a) == 1 else None
        is_req = isinstance(x, ast.Call) and any(_is_class(t, "RegisterDataProviderReq") for t in _targets(P, init, x))
        app = bind_call(P, init, x).get("application_id") if is_req else None
        # the facility tested is the one stored in self.ldm_facility (the constructor argument)
        lf = ifl.expand(ast.parse(f"{init.params[0]}.ldm_facility", mode="eval").body, ifl.state_at(rdp[0]))
        allowed = set(ldm_ok) | set(sem.atoms(ast.Compare(left=lf, ops=[ast.IsNot()], comparators=[ast.Constant(None)]), True)) | set(sem.atoms(lf, True))
        al, why2 = _always(ifl, init, rdp[0], allowed)
        ok_reg = is_req and is_denm_id(init.module, app) and al
        why = f"registers `{show(x)}`" + ("" if al else f", {why2}")
    ctx.ob("C17.feed", init.short(), "provider-registered", ok_reg,
           "the reception manager registers as DENM data provider whenever an LDM is attached" if ok_reg else why, init.loc)
    ctx.floor("C17.feed", 8)


# ------------------------------------------------------------------------------------------------ schema
def schema(ctx):
    """DENM part of the C11 engine for the elements this property speaks about: identity, reference time, event position -
    every store made by fullfill_with_vehicle_data (whatever its key) and every store below those elements elsewhere."""
    P = ctx.prog
    M = MU.Messages(ctx)
    fv = P.cls(MSG).methods["fullfill_with_vehicle_data"]
    mine = ("actionId", "stationId", "originatingStationId", "sequenceNumber", "eventPosition", "referenceTime", "detectionTime")
    sel = lambda s: s.fi.qual == fv.qual or any(k in mine for k in s.path)
    MU.check_stores(ctx, M, "DENM", "C17.schema", "C17.schema", only=sel)
    # INTEGER positions must not be fed by float-typed expressions (asn1tools raises on 1.7e12 where 1700000000000 is meant)
    ck = M.checker("DENM", "C17.schema", "C17.schema")
    tm_, lit = M.templates["DENM"]
    for s in M.stores("DENM"):
        if not sel(s) or "?" in s.path:
            continue
        t, _ = ck.descend(M.roots["DENM"], s.path, lit)
        if t is None or t.get("type") != "INTEGER":
            continue
        fl = ctx.flows.get(s.fi)
        v = fl.expand(s.value, fl.before[id(s.stmt)])
        kind = _num_kind(P, s.fi, v)
        pstr = "DENM" + "".join(f".{k}" if isinstance(k, str) else f"[{k}]" for k in s.path)
        ctx.ob("C17.schema", s.fi.short(), f"{pstr}:integer", kind != "float",
               f"`{pretty(unparse(v))[:70]}` stored into the INTEGER {t.get('_name', 'element')} is " +
               ("an int" if kind == "int" else "not known to be a float" if kind == "?" else
                "float-typed (annotation / operator): the encoder rejects it - wrap it in int(...)"), f"{s.fi.module.rel}:{s.stmt.lineno}")
    MU.check_reads(ctx, M, "DENM", "C17.schema", [(f"{RX}.feed_ldm", "denm"), (f"{RX}.reception_callback", "denm")])
    ctx.floor("C17.schema", 21)
