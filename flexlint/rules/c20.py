"""C20 - packet lifetime and hop budget on the wire honour the request.

Decides: the lifetime quantiser as an exact piecewise table (lt-quantiser: set_value_in_millis interpreted - never run -
on both ends of every cell of the finite breakpoint partition of 0 .. 7 000 000 ms induced by its thresholds, divisors
and the 4 x 64 representable values): multiplier within 0..63, never above the request, non-zero from 50 ms, the
largest representable value not above the request; the reader's unit table = the clause 9.6.4 units (lt-reader); where
the LT of an originated packet comes from (lt-source: the requested lifetime in ms when one is given - `is None` and
nothing else selecting - else itsGnDefaultPacketLifetime, always the default without a request; RHL field = the
caller's value; seconds -> ms helper; the quantiser independent of its receiver; the lifetime argument at every
origination site); what an indication reports (lt-indication: remaining lifetime read from the received Basic Header's
LT, remaining hop limit = its RHL, seconds = floor(ms / 1000) on every representable lifetime, so never above the
encoded one); RHL / MHL selection at every origination site (hops: 1/1 for single-hop packets and beacons, otherwise
RHL = the requested limit when above 1 else itsGnDefaultHopLimit and MHL the same value; CommonHeader MHL = 1 exactly
for TSB / SINGLE_HOP, else the request's; on the wire only the NH field of an initialised Basic Header is re-stamped -
no later set_rhl / set_lt); that the Basic Header's set_* / with_* copies keep every other field, and a Basic Header rebuilt by
the constructor from a received one passes every field on (copy-faithful); the
RHL <= MHL guard in front of every receive handler call of the dispatcher (rhl-le-mhl).
Does not decide bit positions of LT / RHL / MHL (C02.layout), lifetimes above 7 000 000 ms, nor ageing of a lifetime
while a packet waits in a buffer (timing).
"""
from __future__ import annotations

import ast
import re

from ..prog import AnalysisError, ClassInfo, FuncInfo, dotted, unparse
from ..absint import MiniEval, MiniExec, value_constants, to_poly
from ..match import pretty, int_upper_bound, int_lower_bound
from .. import sem
from . import gnutil as G
from .c19 import sym_paths, split_ifexp, bind_call, Lits

PROP = "C20"
BH = "geonet.basic_header"
ROUTER = "geonet.router.Router"
LIMIT = 7_000_000      # the property's quantifier: requested lifetimes 0 .. 7 000 000 ms


def norm(s):
    return re.sub(r"\s+", "", s)


def reader_units(ctx) -> dict:
    """LT.get_value_in_millis: base member -> unit (ms)."""
    P = ctx.prog
    fi = P.func(f"{BH}.LT.get_value_in_millis")
    units = {}
    for n in ast.walk(fi.node):
        other = sem.eq_other(n.test, lambda e: dotted(e) == "self.base") if isinstance(n, ast.If) else None
        if other is not None:
            member = (dotted(other) or "").split(".")[-1]
            for b in n.body:
                if isinstance(b, ast.Return) and isinstance(b.value, ast.BinOp) and isinstance(b.value.op, ast.Mult):
                    l, r = b.value.left, b.value.right
                    k = P.try_fold(fi.module, r) if dotted(l) == "self.multiplier" else P.try_fold(fi.module, l)
                    if isinstance(k, int):
                        units[member] = k
    if len(units) != 4:
        raise AnalysisError(f"C20: reader table of LT.get_value_in_millis has {len(units)} bases (confirmed: 4)")
    return units


def quantiser(ctx):
    P = ctx.prog
    fi = P.func(f"{BH}.LT.set_value_in_millis")
    units = reader_units(ctx)
    ctx.extra["lt_units_ms"] = units
    want_units = {"FIFTY_MILLISECONDS": 50, "ONE_SECOND": 1000, "TEN_SECONDS": 10000, "ONE_HUNDRED_SECONDS": 100000}
    for k, v in want_units.items():
        ctx.ob("C20.lt-reader", f"{BH}.LT.get_value_in_millis", k, units.get(k) == v,
               f"base {k} is read as {units.get(k)} ms per step (clause 9.6.4: {v})", fi.loc)
    var = fi.params[1]
    R = sorted({m * u for m in range(64) for u in units.values()})
    ctx.extra["representable_values"] = len(R)
    thr, div = value_constants(P, fi, var)
    if -1 in div:
        div.discard(-1)
        div |= set(units.values())
        # literal constants of the function that could be used as divisors through a loop variable
        for n in ast.walk(fi.node):
            c = P.try_fold(fi.module, n) if isinstance(n, (ast.Constant, ast.Name, ast.Attribute)) else None
            if isinstance(c, int) and not isinstance(c, bool) and c > 1:
                div.add(c)
    # exact partition: the function is built from comparisons with `thr` and floor divisions by `div`, hence constant
    # on every cell whose end points are consecutive elements of the set below
    bps = {0, LIMIT + 1} | {t for t in thr if 0 <= t <= LIMIT} | {t + 1 for t in thr if 0 <= t + 1 <= LIMIT}
    # a division only matters on the range of `value` under which it is evaluated (guard facts at the division node)
    fl = ctx.flows.get(fi)
    for n in ast.walk(fi.node):
        if isinstance(n, ast.BinOp) and isinstance(n.op, (ast.Div, ast.FloorDiv, ast.Mod)) and \
                any(isinstance(x, ast.Name) and x.id == var for x in ast.walk(n.left)):
            st = fl.state_at(n)
            lo = int_lower_bound(P, fi.module, st.facts, var)
            hi = int_upper_bound(P, fi.module, st.facts, var)
            lo = 0 if lo is None else max(0, lo)
            hi = LIMIT if hi is None else min(LIMIT, hi)
            c = P.try_fold(fi.module, n.right)
            ds = {int(c)} if isinstance(c, (int, float)) and c > 0 else set(div)
            if c is None and isinstance(n.right, ast.Name):
                # divisor is a loop variable over a constant table: take exactly its values
                for loop in ast.walk(fi.node):
                    if isinstance(loop, ast.For):
                        tbl = P.try_fold(fi.module, loop.iter)
                        tg = loop.target.elts if isinstance(loop.target, ast.Tuple) else [loop.target]
                        idx = [i for i, t in enumerate(tg) if isinstance(t, ast.Name) and t.id == n.right.id]
                        if isinstance(tbl, tuple) and idx:
                            vals = {row[idx[0]] if isinstance(loop.target, ast.Tuple) else row for row in tbl}
                            if all(isinstance(v, int) and v > 0 for v in vals):
                                ds = set(vals)
            # quotient clamped by min(<quotient>, C): it stops changing after (C + 1) steps
            par = fl.parent.get(id(n))
            if isinstance(par, ast.Call) and dotted(par.func) == "min" and len(par.args) == 2:
                cc = [P.try_fold(fi.module, a) for a in par.args if a is not n]
                if cc and isinstance(cc[0], int):
                    for d in ds:
                        hi = min(hi, (cc[0] + 1) * d)
            if isinstance(n.op, ast.Mod):
                # (value / d) % m wraps at multiples of d*m, not of m
                inner = n.left
                while isinstance(inner, ast.Call) and len(inner.args) == 1:
                    inner = inner.args[0]
                if isinstance(inner, ast.BinOp) and isinstance(inner.op, (ast.Div, ast.FloorDiv)):
                    d0 = P.try_fold(fi.module, inner.right)
                    if isinstance(d0, (int, float)) and d0 > 0 and isinstance(c, (int, float)):
                        ds = {int(d0 * c)}
            for d in ds:
                start = (lo // d) * d
                bps |= set(range(start, hi + 2, d))
    bps |= {x for x in R if x <= LIMIT}
    bps = sorted(bps)
    labels = sorted({0, LIMIT + 1} | {t for t in thr if 0 < t <= LIMIT})
    stats = {}
    con = fi.short()
    n_eval = 0
    import bisect
    for c0, c1 in zip(bps, bps[1:]):
        li = bisect.bisect_right(labels, c0) - 1
        label = f"[{labels[li]},{labels[li + 1]})"
        w = stats.setdefault(label, {})
        for v in ({c0, c1 - 1}):
            n_eval += 1
            rec = MiniExec(P, fi, {var: v, "self": None}).run()
            if not isinstance(rec, dict) or "multiplier" not in rec or "base" not in rec:
                raise AnalysisError(f"C20: set_value_in_millis({v}) does not return LT(multiplier=..., base=...) in a form the "
                                    f"interpreter understands")
            mult, base = rec["multiplier"], rec["base"]
            member = base[2] if isinstance(base, tuple) else None
            if member not in units:
                raise AnalysisError(f"C20: unknown base {base!r}")
            got = mult * units[member]
            best = max(x for x in R if x <= v)
            if not (isinstance(mult, int) and 0 <= mult <= 63):
                w.setdefault("wrap", (v, mult))
                continue
            if got > v:
                w.setdefault("exceeds", (v, got))
            if v >= 50 and got == 0:
                w.setdefault("zero", (v, got))
            if got != best:
                w.setdefault("not-largest", (v, got, best))
    for label in sorted(stats, key=lambda s_: int(s_[1:].split(",")[0])):
        w = stats[label]
        loc = fi.loc
        ctx.ob("C20.lt-quantiser", con, f"{label}:multiplier-range", "wrap" not in w,
               f"multiplier stays within 0..63 on {label}" if "wrap" not in w else
               f"requested {w['wrap'][0]} ms gives multiplier {w['wrap'][1]} (6-bit field)", loc)
        ctx.ob("C20.lt-quantiser", con, f"{label}:never-above-request", "exceeds" not in w,
               f"encoded lifetime <= requested on {label}" if "exceeds" not in w else
               f"requested {w['exceeds'][0]} ms is encoded as {w['exceeds'][1]} ms", loc)
        ctx.ob("C20.lt-quantiser", con, f"{label}:non-zero-from-50ms", "zero" not in w,
               f"non-zero on {label}" if "zero" not in w else
               f"requested {w['zero'][0]} ms (>= 50 ms) is encoded as lifetime 0: the packet is dead on arrival", loc)
        ctx.ob("C20.lt-quantiser", con, f"{label}:largest-representable", "not-largest" not in w,
               f"largest representable value not above the request on {label}" if "not-largest" not in w else
               f"requested {w['not-largest'][0]} ms is encoded as {w['not-largest'][1]} ms although "
               f"{w['not-largest'][2]} ms is representable", loc)
    ctx.extra["quantiser_cells"] = len(bps) - 1
    ctx.extra["quantiser_evaluations"] = n_eval
    ctx.extra["exhaustive"] = True
    ctx.floor("C20.lt-quantiser", 8)


def _lt_millis(ctx, fi: FuncInfo, e: ast.AST):
    """Lifetime in ms (exact polynomial, as text) that an expression `<LT>.set_value_in_millis(x)` /
    `<LT>.set_value_in_seconds(x)` requests from the quantiser; None when `e` is not such a call."""
    P = ctx.prog
    if not isinstance(e, ast.Call) or len(e.args) + len(e.keywords) != 1:
        return None
    tg = [t for t in P.call_targets(fi, e, count=False, cha=False) if isinstance(t, FuncInfo)]
    if len(tg) != 1 or tg[0].cls is None or tg[0].cls.qual != P.cls(f"{BH}.LT").qual:
        return None
    arg = e.args[0] if e.args else e.keywords[0].value
    poly = to_poly(P, fi.module, arg, pretty)
    if tg[0].name == "set_value_in_millis":
        return repr(poly)
    if tg[0].name == "set_value_in_seconds":      # = set_value_in_millis(1000 * x): obligation `seconds-to-ms`
        return repr(to_poly(P, fi.module, ast.BinOp(left=ast.Constant(1000), op=ast.Mult(), right=arg), pretty))
    return None


def _header_cases(ctx, fi: FuncInfo) -> list:
    """[(literals of the path, {field: value}, line)] for every BasicHeader construction a classmethod returns."""
    P = ctx.prog
    L = Lits(P, fi.module)
    bh = P.cls(f"{BH}.BasicHeader")
    out = []
    for p in sym_paths(fi):
        if p.kind == "raise":
            continue
        if p.value is None:
            out.append((set(), None, fi.node.lineno))
            continue
        for conds, x in split_ifexp(p.value):
            have = L.of(list(p.conds) + conds)
            if any(Lits.neg(a) in have for a in have):
                continue        # contradictory case (the same test taken both ways)
            is_ctor = isinstance(x, ast.Call) and ((isinstance(x.func, ast.Name) and x.func.id == fi.params[0] and fi.kind == "classmethod") or
                                                   any(t is bh for t in P.call_targets(fi, x, count=False, cha=False)))
            if not is_ctor:
                out.append((have, None, p.stmt.lineno))
                continue
            names = [f for f, (ann, _) in bh.fields.items() if ann is not None]
            kws = {names[i]: a for i, a in enumerate(x.args) if i < len(names)}
            kws.update({kw.arg: kw.value for kw in x.keywords if kw.arg})
            out.append((have, kws, p.stmt.lineno))
    return out


def lt_sources(ctx):
    P = ctx.prog
    lt_cls = P.cls(f"{BH}.LT")
    # ---- the two initialisers used at origination
    fi = P.func(f"{BH}.BasicHeader.initialize_with_mib_request_and_rhl")
    mib, life, rhl = fi.params[1], fi.params[2], fi.params[3]
    L = Lits(P, fi.module)
    cases = _header_cases(ctx, fi)
    got = set()
    for have, kws, line in cases:
        ms = _lt_millis(ctx, fi, kws["lt"]) if kws and "lt" in kws else None
        got.add((frozenset(have), ms if ms is not None else f"<{unparse(kws['lt'])[:60] if kws and 'lt' in kws else 'no BasicHeader'}>"))
    pol = lambda src: repr(to_poly(P, fi.module, ast.parse(src, mode="eval").body, pretty))
    want = {(frozenset(L.want(f"{life} is not None")), pol(f"int({life} * 1000)")),
            (frozenset(L.want(f"{life} is None")), pol(f"{mib}.itsGnDefaultPacketLifetime * 1000"))}
    ctx.ob("C20.lt-source", fi.short(), "lt", got == want,
           f"LT of an originated packet is quantised from {sorted((sorted(a), b) for a, b in got)} ms; must be the requested lifetime "
           f"(s -> ms, int(x * 1000)) when one is given, else the MIB default itsGnDefaultPacketLifetime", fi.loc)
    ok_rhl = bool(cases) and all(kws and "rhl" in kws and sem.same(kws["rhl"], rhl) for _, kws, _ in cases)
    ctx.ob("C20.lt-source", fi.short(), "rhl", ok_rhl, "RHL field = the caller's value on every path", fi.loc)
    ok_none = bool(cases) and all(L.holds(have, f"{life} is not None") or L.holds(have, f"{life} is None") for have, _, _ in cases)
    ctx.ob("C20.lt-source", fi.short(), "none-selects-default", ok_none,
           f"`{life} is None` (and nothing else) selects request vs MIB default", fi.loc)
    # beacons (and anything else without a request): always the MIB default
    fb = P.func(f"{BH}.BasicHeader.initialize_with_mib_and_rhl")
    bmib, brhl = fb.params[1], fb.params[2]
    cases = _header_cases(ctx, fb)
    got = {(_lt_millis(ctx, fb, kws["lt"]) if kws and "lt" in kws else None) for _, kws, _ in cases}
    wantb = repr(to_poly(P, fb.module, ast.parse(f"{bmib}.itsGnDefaultPacketLifetime * 1000", mode="eval").body, pretty))
    ctx.ob("C20.lt-source", fb.short(), "lt", got == {wantb},
           f"LT of a packet originated without a request is quantised from {sorted(map(str, got))} ms; must be the MIB default "
           f"itsGnDefaultPacketLifetime (s -> ms)", fb.loc)
    ctx.ob("C20.lt-source", fb.short(), "rhl", bool(cases) and all(kws and "rhl" in kws and sem.same(kws["rhl"], brhl) for _, kws, _ in cases),
           "RHL field = the caller's value on every path", fb.loc)
    # ---- the helpers the two rules above rely on
    sec = P.func(f"{BH}.LT.set_value_in_seconds")
    okd = []
    for p in sym_paths(sec):
        v = p.value
        tg = [t for t in P.call_targets(sec, v, count=False, cha=False) if isinstance(t, FuncInfo)] if isinstance(v, ast.Call) else []
        okd.append(p.kind == "return" and len(tg) == 1 and tg[0].qual == P.func(f"{BH}.LT.set_value_in_millis").qual and
                   _lt_millis(ctx, sec, v) == repr(to_poly(P, sec.module, ast.parse(f"{sec.params[1]} * 1000", mode="eval").body, pretty)))
    ctx.ob("C20.lt-source", sec.short(), "seconds-to-ms", bool(okd) and all(okd),
           "set_value_in_seconds(x) is set_value_in_millis(x * 1000) on every path", sec.loc)
    mil = P.func(f"{BH}.LT.set_value_in_millis")
    reads_self = [n for n in ast.walk(mil.node) if isinstance(n, ast.Name) and n.id == mil.params[0] and isinstance(n.ctx, ast.Load)]
    ctx.ob("C20.lt-source", mil.short(), "receiver-independent", not reads_self,
           "the quantiser's result depends on the requested value only (any LT instance may be used as receiver)", mil.loc)
    # ---- indication lifetime: from the received basic header's LT through the reader table
    n_ind = 0
    bhq = P.cls(f"{BH}.BasicHeader").qual
    for h in G.receive_handlers(ctx):
        for s in G.sinks_of(ctx, h):
            if s.kind != "deliver":
                continue
            n_ind += 1
            fl = ctx.flows.get(s.fi)
            st = fl.state_at(s.node)
            kws = bind_call(P, s.fi, s.node)
            bhp = [p for p, ts in P.param_types(s.fi).items() if bhq in ts]
            v = fl.expand(kws.get("remaining_packet_lifetime", ast.Constant(None)), st)
            ok = any(sem.same(v, f"float({b}.lt.get_value_in_seconds())") or sem.same(v, f"{b}.lt.get_value_in_seconds()") for b in bhp)
            ctx.ob("C20.lt-indication", s.fi.short(), f"deliver#{n_ind}:lifetime", ok,
                   f"remaining_packet_lifetime = `{pretty(unparse(v))[:80]}`; must be read from the received Basic Header's LT",
                   f"{s.fi.module.rel}:{s.node.lineno}")
            r = fl.expand(kws.get("remaining_hop_limit", ast.Constant(None)), st)
            ctx.ob("C20.lt-indication", s.fi.short(), f"deliver#{n_ind}:rhl", any(sem.same(r, f"{b}.rhl") for b in bhp),
                   f"remaining_hop_limit = `{pretty(unparse(r))[:60]}`; must be the received Basic Header's RHL", f"{s.fi.module.rel}:{s.node.lineno}")
    # seconds reported = floor(ms / 1000), decided on every representable lifetime
    gs = P.func(f"{BH}.LT.get_value_in_seconds")
    gm = P.func(f"{BH}.LT.get_value_in_millis")
    units = reader_units(ctx)
    R = sorted({m * u for m in range(64) for u in units.values()})

    def hook(me, call):
        tg = [t for t in P.call_targets(gs, call, count=False, cha=False) if isinstance(t, FuncInfo)]
        if len(tg) == 1 and tg[0].qual == gm.qual and not call.args and not call.keywords and dotted(call.func) == f"{gs.params[0]}.{gm.name}":
            return me.env["<ms>"]
        return NotImplemented
    paths = [p for p in sym_paths(gs) if p.kind != "raise"]
    bad = None
    for ms in R:
        hit = []
        for p in paths:
            ev = MiniEval(P, gs, {"<ms>": ms}, hook)
            if all(bool(ev.ev(c)) == pol for c, pol in p.conds):
                hit.append(ev.ev(p.value) if p.value is not None else None)
        if len(hit) != 1 or hit[0] != ms // 1000 or isinstance(hit[0], bool):
            bad = (ms, hit)
            break
    ctx.ob("C20.lt-indication", gs.short(), "floor", bad is None and bool(paths),
           f"seconds = floor(ms / 1000) for each of the {len(R)} representable lifetimes: the reported lifetime never exceeds the encoded one"
           if bad is None else f"a lifetime of {bad[0]} ms is reported as {bad[1]} s (floor gives {bad[0] // 1000})", gs.loc)
    ctx.floor("C20.lt-indication", 11)


def _mhl_cases(ctx):
    """CommonHeader.initialize_with_request: [(literals of the case, MHL value expression)] over every path."""
    P = ctx.prog
    ih = P.func("geonet.common_header.CommonHeader.initialize_with_request")
    L = Lits(P, ih.module)
    ch = P.cls("geonet.common_header.CommonHeader")
    names = [f for f, (ann, _) in ch.fields.items() if ann is not None]
    out = []
    for p in sym_paths(ih):
        if p.kind == "raise":
            continue
        for conds, x in (split_ifexp(p.value) if p.value is not None else [([], None)]):
            kws = None
            if isinstance(x, ast.Call) and ((isinstance(x.func, ast.Name) and x.func.id == ih.params[0]) or
                                            any(t is ch for t in P.call_targets(ih, x, count=False, cha=False))):
                kws = {names[i]: a for i, a in enumerate(x.args) if i < len(names)}
                kws.update({kw.arg: kw.value for kw in x.keywords if kw.arg})
            dn = [frozenset()]
            for c, pol in list(p.conds) + conds:
                dn = Lits._and(dn, L.dnf(c, pol))
            out.append((dn, kws.get("mhl") if kws else None, p.stmt.lineno if p.stmt is not None else ih.node.lineno))
    return ih, L, out


def _peel_header(P, bh_cls, e: ast.AST):
    """`<root>.m1(..).m2(..)` -> (root, [m1, m2]) for a chain of BasicHeader copy methods."""
    chain = []
    while isinstance(e, ast.Call) and isinstance(e.func, ast.Attribute) and e.func.attr in bh_cls.methods and \
            bh_cls.methods[e.func.attr].kind == "method":
        chain.append(e.func.attr)
        e = e.func.value
    return e, list(reversed(chain))


def _is_initialiser(P, fi, bh_cls, e: ast.AST) -> bool:
    if not isinstance(e, ast.Call):
        return False
    tg = [t for t in P.call_targets(fi, e, count=False, cha=False) if isinstance(t, FuncInfo)]
    return len(tg) == 1 and tg[0].cls is bh_cls and tg[0].kind == "classmethod" and tg[0].name.startswith("initialize")


def hops(ctx):
    P = ctx.prog
    router = P.cls(ROUTER)
    bh_cls = P.cls(f"{BH}.BasicHeader")
    ch_cls = P.cls("geonet.common_header.CommonHeader")
    n = 0
    for m in router.methods.values():
        fl = ctx.flows.get(m)
        L = Lits(P, m.module)
        bh_calls = [c for c in P.calls_in(m) if _is_initialiser(P, m, bh_cls, c)]
        for c in bh_calls:
            n += 1
            st = fl.state_at(c)
            bound = bind_call(P, m, c)
            callee = [t for t in P.call_targets(m, c, count=False, cha=False) if isinstance(t, FuncInfo)]
            cp = callee[0].params
            if cp[-1] not in bound:
                raise AnalysisError(f"C20: no RHL argument at {m.module.rel}:{c.lineno}")
            rhl_x = fl.expand(bound[cp[-1]], st)
            rhl = norm(pretty(unparse(rhl_x)))
            has_lt = len(cp) == 4
            gdr = [p_ for p_, ts in P.param_types(m).items() if any(isinstance(t, str) and t.endswith(".GNDataRequest") for t in ts)]
            req = gdr[0] if len(gdr) == 1 else None
            # matching common header in the same function
            mhl_x, mhl_kind = None, None
            for x in P.calls_in(m):
                tg = P.call_targets(m, x, count=False, cha=False)
                xs = fl.state_at(x)
                if any(isinstance(t, FuncInfo) and t.cls is ch_cls and t.name == "initialize_with_request" for t in tg):
                    a = fl.expand(bind_call(P, m, x).get("request", ast.Constant(None)), xs)
                    if req is not None and sem.same(a, req):
                        mhl_kind = "request"
                    elif isinstance(a, ast.Call) and any(isinstance(t, str) and t in ("ext:dataclasses.replace",) for t in P.call_targets(m, a, count=False)) \
                            and a.args and req is not None and sem.same(a.args[0], req):
                        kw = {k.arg: k.value for k in a.keywords if k.arg}
                        # every other field of the request is kept by dataclasses.replace
                        if set(kw) == {"max_hop_limit"}:
                            mhl_x, mhl_kind = kw["max_hop_limit"], "value"
                elif any(isinstance(t, FuncInfo) and t.cls is ch_cls and t.name == "initialize_beacon" for t in tg):
                    mhl_x, mhl_kind = ast.Constant(1), "value"
                elif any(t is ch_cls for t in tg):
                    kw = bind_call(P, m, x)
                    if "mhl" in kw:
                        mhl_x, mhl_kind = fl.expand(kw["mhl"], xs), "value"
            con = m.short()
            loc = f"{m.module.rel}:{c.lineno}"
            mhl_txt = "<the request's, 1 for SHB>" if mhl_kind == "request" else (pretty(unparse(mhl_x)) if mhl_x is not None else None)
            if P.try_fold(m.module, rhl_x) == 1:
                ok = (mhl_kind == "value" and P.try_fold(m.module, mhl_x) == 1) or mhl_kind == "request"
                ctx.ob("C20.hops", con, "single-hop", ok, f"RHL 1 with MHL `{mhl_txt}` (single-hop packets and beacons carry 1/1)", loc)
            else:
                # RHL: the requested limit when it is above 1, else itsGnDefaultHopLimit (packets without a request: the default)
                cases = split_ifexp(rhl_x)
                dflt = "self.mib.itsGnDefaultHopLimit"
                if req is None:
                    ok = len(cases) == 1 and sem.same(cases[0][1], dflt)
                else:
                    from_req, others = [], []
                    for conds, v in cases:
                        dn = [frozenset()]
                        for t_, pol in conds:
                            dn = Lits._and(dn, L.dnf(t_, pol))
                        (from_req if sem.same(v, f"{req}.max_hop_limit") else others).append((dn, v))
                    eqv = Lits.equivalent([m_ for dn, _ in from_req for m_ in dn], L.dnf(ast.parse(f"{req}.max_hop_limit > 1", mode="eval").body, True))
                    ok = bool(from_req) and eqv is True and all(sem.same(v, dflt) for _, v in others)
                ctx.ob("C20.hops", con, "rhl-selection", ok,
                       f"RHL = `{rhl[:110]}`; must be the requested limit when above 1, else itsGnDefaultHopLimit", loc)
                ctx.ob("C20.hops", con, "rhl-equals-mhl", mhl_kind == "value" and sem.same(mhl_x if mhl_x is None else fl.expand(mhl_x, st), rhl_x)
                       if mhl_x is not None else False,
                       f"MHL = `{str(mhl_txt)[:110]}` must be the same value as RHL", loc)
            if has_lt:
                # a site that serves a GN-DATA.request hands on THAT request's lifetime; sites without a request (location
                # service packets generated by the router itself) ask for the MIB default with None
                lt_x = fl.expand(bound[cp[2]], st) if cp[2] in bound else None
                if gdr:
                    ok_lt = lt_x is not None and len(gdr) == 1 and sem.same(lt_x, f"{gdr[0]}.max_packet_lifetime")
                    why = f"must be `{gdr[0]}.max_packet_lifetime`, the lifetime of the request being served"
                else:
                    ok_lt = isinstance(lt_x, ast.Constant) and lt_x.value is None
                    why = "no GN-DATA.request is served here: must be None (MIB default)"
                ctx.ob("C20.lt-source", con, "lifetime-argument", ok_lt,
                       f"lifetime handed to the Basic Header = `{pretty(unparse(lt_x)) if lt_x is not None else '<missing>'}`; {why}", loc)
    if n < 6:
        raise AnalysisError(f"C20: {n} Basic Header initialisations at origination found (confirmed: 6)")
    # CommonHeader.initialize_with_request: MHL = 1 exactly for SHB, else the request's limit
    ih, Lh, cases = _mhl_cases(ctx)
    req = ih.params[1]
    ones = [m_ for dn, v, _ in cases if v is not None and P.try_fold(ih.module, v) == 1 for m_ in dn]
    rest = [(dn, v) for dn, v, _ in cases if not (v is not None and P.try_fold(ih.module, v) == 1)]
    want = Lh.dnf(ast.parse(f"{req}.packet_transport_type.header_type == HeaderType.TSB and "
                            f"{req}.packet_transport_type.header_subtype == TopoBroadcastHST.SINGLE_HOP", mode="eval").body, True)
    tsb = P.resolve_expr_entity(ih.module, ast.parse("HeaderType.TSB", mode="eval").body)
    shb = P.resolve_expr_entity(ih.module, ast.parse("TopoBroadcastHST.SINGLE_HOP", mode="eval").body)
    eqv = Lits.equivalent(ones, want)
    ctx.ob("C20.hops", ih.short(), "shb-mhl-1", eqv is True and isinstance(tsb, tuple) and isinstance(shb, tuple),
           "CommonHeader.initialize_with_request sets MHL = 1 exactly for HT = TSB / HST = SINGLE_HOP" if eqv else
           f"MHL = 1 under {[sorted(m_) for m_ in ones][:3]}; must be exactly HT = TSB and HST = SINGLE_HOP", ih.loc)
    ctx.ob("C20.hops", ih.short(), "mhl-from-request", bool(rest) and all(v is not None and sem.same(v, f"{req}.max_hop_limit") for _, v in rest),
           f"MHL alternatives besides 1: {sorted({pretty(unparse(v)) if v is not None else '<none>' for _, v in rest})}; must be the request's max_hop_limit",
           ih.loc)
    # ---- receiver discards RHL > MHL before any handler
    pch = P.func(f"{ROUTER}.process_common_header")
    fl = ctx.flows.get(pch)
    L = Lits(P, pch.module)
    bhp = [p_ for p_, ts in P.param_types(pch).items() if bh_cls.qual in ts]
    dec = [c for c in P.calls_in(pch) if any(isinstance(t, FuncInfo) and t.cls is ch_cls and t.name.startswith("decode") for t in
                                             P.call_targets(pch, c, count=False, cha=False))]
    if len(bhp) != 1 or len(dec) != 1:
        raise AnalysisError(f"C20: process_common_header: {len(bhp)} Basic Header parameter(s), {len(dec)} Common Header decode call(s)")
    chx = fl.expand(dec[0], fl.state_at(dec[0]))
    want = L.of([(ast.Compare(left=ast.parse(f"{bhp[0]}.rhl", mode="eval").body, ops=[ast.LtE()],
                              comparators=[ast.Attribute(value=chx, attr="mhl", ctx=ast.Load())]), True)])
    nh = 0
    for c in P.calls_in(pch):
        tg = [t for t in P.call_targets(pch, c, count=False) if isinstance(t, FuncInfo) and t.name.startswith("gn_data_indicate")]
        if not tg:
            continue
        nh += 1
        st = fl.state_at(c)
        have = L.of([(f.xnode, f.pol) for f in st.facts if f.kind == "cond"])
        ok = want <= have
        # the handler is given the very headers that were compared
        for pname, a in bind_call(P, pch, c).items():
            ts = P.param_types(tg[0]).get(pname, set())
            if ch_cls.qual in ts:
                ok = ok and sem.same(fl.expand(a, st), chx)
            if bh_cls.qual in ts:
                ok = ok and sem.same(fl.expand(a, st), bhp[0])
        ctx.ob("C20.rhl-le-mhl", pch.short(), tg[0].name, ok,
               f"{tg[0].name} is reached only with RHL <= MHL established" if ok else
               f"{tg[0].name} is reachable for packets whose remaining hop limit exceeds the maximum hop limit",
               f"{pch.module.rel}:{c.lineno}")
    ctx.floor("C20.rhl-le-mhl", 7)


def emitted_basic_header(ctx):
    """The Basic Header actually put on the wire at origination is the initialised one (only NH may be re-stamped)."""
    P = ctx.prog
    router = P.cls(ROUTER)
    bh_cls = P.cls(f"{BH}.BasicHeader")
    n = 0
    for m in router.methods.values():
        if not (m.name.startswith("gn_data_request") or m.name.startswith("_send_ls") or m.name == "gn_data_indicate_ls_request"):
            continue
        fl = ctx.flows.get(m)
        for c in P.calls_in(m):
            if not G.is_ll_send(P, m, c):
                continue
            st = fl.state_at(c)
            for alt in fl.alternatives(c.args[0], st):
                ops = G.concat_operands(alt)
                bh = ops[0]
                if not (isinstance(bh, ast.Call) and isinstance(bh.func, ast.Attribute) and bh.func.attr == "encode_to_bytes"):
                    continue
                root, chain = _peel_header(P, bh_cls, bh.func.value)
                if not _is_initialiser(P, m, bh_cls, root):
                    continue     # forwarded copy of a received header (C06.rhl)
                n += 1
                src = norm(pretty(unparse(bh.func.value)))
                ok = all(x == "set_nh" for x in chain)
                ctx.ob("C20.hops", m.short(), f"emitted-header:{n}", ok,
                       f"Basic Header on the wire = `{src[:150]}`; after initialisation only the NH field may be re-stamped "
                       "(a later set_rhl/set_lt detaches RHL from MHL or LT from the request)", f"{m.module.rel}:{c.lineno}")
    if n < 7:
        raise AnalysisError(f"C20: {n} originated packets recognised (confirmed: 9)")
    G.check_copy_methods(ctx, "C20.copy-faithful", ["geonet.basic_header.BasicHeader"])
    # a Basic Header rebuilt from a received one (`BasicHeader(version=bh.version, ...)`) carries EVERY field over: a field left
    # out falls back to its default - RHL 0 / LT default - and the hop-limit and lifetime checks behind it can no longer fire
    dispatch = [x for x in router.methods.values() if x.name in ("process_security_header", "process_basic_header", "process_common_header")]
    n_disp = 0
    for m in router.methods.values():
        fl = ctx.flows.get(m)
        for c in P.calls_in(m):
            tg = P.call_targets(m, c, count=False)
            if any(t in dispatch for t in tg):
                n_disp += 1
            if not any(isinstance(t, ClassInfo) and t is bh_cls for t in tg):
                continue
            kws = {k.arg: k.value for k in c.keywords if k.arg}
            names = [nm for nm, (ann, _) in bh_cls.fields.items() if ann is not None]
            for i_, a in enumerate(c.args):
                if i_ < len(names):
                    kws[names[i_]] = a
            srcs = set()
            for v in kws.values():
                if isinstance(v, ast.Attribute) and v.attr in names:
                    ts = {t for t in P.expr_types(m, v.value) if isinstance(t, str)}
                    if bh_cls.qual in ts:
                        srcs.add(sem.cx(v.value))
            if not srcs:
                continue                      # not built from another Basic Header
            missing = [f for f in names if f not in kws and f != "reserved"]
            ctx.ob("C20.copy-faithful", m.short(), f"rebuilt-from:{sorted(srcs)[0]}", not missing,
                   f"the Basic Header rebuilt from `{sorted(srcs)[0]}` passes every field on" if not missing else
                   f"the Basic Header rebuilt from `{sorted(srcs)[0]}` leaves out {missing}: they fall back to their defaults (RHL 0, default "
                   "lifetime), so the received hop limit / lifetime are lost for everything behind this point (the RHL <= MHL check cannot "
                   "fire, forwarded copies restart their budget)", f"{m.module.rel}:{c.lineno}")
    if n_disp < 3:
        raise AnalysisError(f"C20: only {n_disp} calls of the receive dispatchers found (confirmed: 4)")
    ctx.floor("C20.copy-faithful", 20)


def run(ctx):
    ctx.explanation = (
        "The lifetime quantiser's if-chain is extracted into pieces (interval of the requested value, multiplier form, base); "
        "the reader's unit table is extracted from get_value_in_millis; the pieces are then evaluated by interpreting their "
        "expression trees on both ends of every cell of the partition induced by the 256 representable lifetimes inside "
        "[0, 7 000 000] ms - on each cell both the quantiser and 'largest representable <= v' are constant or monotone "
        "steps, so the comparison is exact and exhaustive. Provenance rules decide where LT, RHL and MHL of every originated "
        "packet and of every indication come from; a guard rule puts RHL <= MHL in front of every receive handler.")
    ctx.declined = ["bit positions of LT/RHL/MHL (decided by C02.layout)"]
    quantiser(ctx)
    lt_sources(ctx)
    hops(ctx)
    ctx.floor("C20.lt-source", 12)
    emitted_basic_header(ctx)
    ctx.floor("C20.hops", 27)
