"""C20 - packet lifetime and hop budget on the wire honour the request.

Decides: the lifetime quantiser as an exact piecewise table (extracted from the if-chain and evaluated on the finite
breakpoint partition induced by the 4 x 64 representable values): never above the request, non-zero from 50 ms, the
largest representable value, divisor = unit of the chosen base, no multiplier wrap; reader table = writer units;
where the LT of an originated packet and of an indication comes from; RHL/MHL selection at every origination site;
the RHL <= MHL guard in front of every receive handler.  Bit positions of LT/RHL/MHL: C02.layout.
"""
from __future__ import annotations

import ast
import re

from ..prog import AnalysisError, ClassInfo, FuncInfo, dotted, unparse
from ..absint import MiniEval, MiniExec, value_constants
from ..match import pretty, int_upper_bound, int_lower_bound
from . import gnutil as G

PROP = "C20"
BH = "geonet.basic_header"
ROUTER = "geonet.router.Router"
LIMIT = 7_000_000      # the property's quantifier: requested lifetimes 0 .. 7 000 000 ms


def norm(s):
    return re.sub(r"\s+", "", s)


def reader_units(ctx) -> dict:
    """LT.get_value_in_millis: base member -> unit (ms)."""
    P = ctx.prog
    fi = P.func(f"{BH}.LT.get_value_in_millis")
    units = {}
    for n in ast.walk(fi.node):
        if isinstance(n, ast.If) and isinstance(n.test, ast.Compare) and dotted(n.test.left) == "self.base":
            member = (dotted(n.test.comparators[0]) or "").split(".")[-1]
            for b in n.body:
                if isinstance(b, ast.Return) and isinstance(b.value, ast.BinOp) and isinstance(b.value.op, ast.Mult):
                    l, r = b.value.left, b.value.right
                    k = P.try_fold(fi.module, r) if dotted(l) == "self.multiplier" else P.try_fold(fi.module, l)
                    if isinstance(k, int):
                        units[member] = k
    if len(units) != 4:
        raise AnalysisError(f"C20: reader table of LT.get_value_in_millis has {len(units)} bases (confirmed: 4)")
    return units


def quantiser(ctx):
    P = ctx.prog
    fi = P.func(f"{BH}.LT.set_value_in_millis")
    units = reader_units(ctx)
    ctx.extra["lt_units_ms"] = units
    want_units = {"FIFTY_MILLISECONDS": 50, "ONE_SECOND": 1000, "TEN_SECONDS": 10000, "ONE_HUNDRED_SECONDS": 100000}
    for k, v in want_units.items():
        ctx.ob("C20.lt-reader", f"{BH}.LT.get_value_in_millis", k, units.get(k) == v,
               f"base {k} is read as {units.get(k)} ms per step (clause 9.6.4: {v})", fi.loc)
    var = fi.params[1]
    R = sorted({m * u for m in range(64) for u in units.values()})
    ctx.extra["representable_values"] = len(R)
    thr, div = value_constants(P, fi, var)
    if -1 in div:
        div.discard(-1)
        div |= set(units.values())
        # literal constants of the function that could be used as divisors through a loop variable
        for n in ast.walk(fi.node):
            c = P.try_fold(fi.module, n) if isinstance(n, (ast.Constant, ast.Name, ast.Attribute)) else None
            if isinstance(c, int) and not isinstance(c, bool) and c > 1:
                div.add(c)
    # exact partition: the function is built from comparisons with `thr` and floor divisions by `div`, hence constant
    # on every cell whose end points are consecutive elements of the set below
    bps = {0, LIMIT + 1} | {t for t in thr if 0 <= t <= LIMIT} | {t + 1 for t in thr if 0 <= t + 1 <= LIMIT}
    # a division only matters on the range of `value` under which it is evaluated (guard facts at the division node)
    fl = ctx.flows.get(fi)
    for n in ast.walk(fi.node):
        if isinstance(n, ast.BinOp) and isinstance(n.op, (ast.Div, ast.FloorDiv, ast.Mod)) and \
                any(isinstance(x, ast.Name) and x.id == var for x in ast.walk(n.left)):
            st = fl.state_at(n)
            lo = int_lower_bound(P, fi.module, st.facts, var)
            hi = int_upper_bound(P, fi.module, st.facts, var)
            lo = 0 if lo is None else max(0, lo)
            hi = LIMIT if hi is None else min(LIMIT, hi)
            c = P.try_fold(fi.module, n.right)
            ds = {int(c)} if isinstance(c, (int, float)) and c > 0 else set(div)
            if c is None and isinstance(n.right, ast.Name):
                # divisor is a loop variable over a constant table: take exactly its values
                for loop in ast.walk(fi.node):
                    if isinstance(loop, ast.For):
                        tbl = P.try_fold(fi.module, loop.iter)
                        tg = loop.target.elts if isinstance(loop.target, ast.Tuple) else [loop.target]
                        idx = [i for i, t in enumerate(tg) if isinstance(t, ast.Name) and t.id == n.right.id]
                        if isinstance(tbl, tuple) and idx:
                            vals = {row[idx[0]] if isinstance(loop.target, ast.Tuple) else row for row in tbl}
                            if all(isinstance(v, int) and v > 0 for v in vals):
                                ds = set(vals)
            # quotient clamped by min(<quotient>, C): it stops changing after (C + 1) steps
            par = fl.parent.get(id(n))
            if isinstance(par, ast.Call) and dotted(par.func) == "min" and len(par.args) == 2:
                cc = [P.try_fold(fi.module, a) for a in par.args if a is not n]
                if cc and isinstance(cc[0], int):
                    for d in ds:
                        hi = min(hi, (cc[0] + 1) * d)
            if isinstance(n.op, ast.Mod):
                # (value / d) % m wraps at multiples of d*m, not of m
                inner = n.left
                while isinstance(inner, ast.Call) and len(inner.args) == 1:
                    inner = inner.args[0]
                if isinstance(inner, ast.BinOp) and isinstance(inner.op, (ast.Div, ast.FloorDiv)):
                    d0 = P.try_fold(fi.module, inner.right)
                    if isinstance(d0, (int, float)) and d0 > 0 and isinstance(c, (int, float)):
                        ds = {int(d0 * c)}
            for d in ds:
                start = (lo // d) * d
                bps |= set(range(start, hi + 2, d))
    bps |= {x for x in R if x <= LIMIT}
    bps = sorted(bps)
    labels = sorted({0, LIMIT + 1} | {t for t in thr if 0 < t <= LIMIT})
    stats = {}
    con = fi.short()
    n_eval = 0
    import bisect
    for c0, c1 in zip(bps, bps[1:]):
        li = bisect.bisect_right(labels, c0) - 1
        label = f"[{labels[li]},{labels[li + 1]})"
        w = stats.setdefault(label, {})
        for v in ({c0, c1 - 1}):
            n_eval += 1
            rec = MiniExec(P, fi, {var: v, "self": None}).run()
            if not isinstance(rec, dict) or "multiplier" not in rec or "base" not in rec:
                raise AnalysisError(f"C20: set_value_in_millis({v}) does not return LT(multiplier=..., base=...) in a form the "
                                    f"interpreter understands")
            mult, base = rec["multiplier"], rec["base"]
            member = base[2] if isinstance(base, tuple) else None
            if member not in units:
                raise AnalysisError(f"C20: unknown base {base!r}")
            got = mult * units[member]
            best = max(x for x in R if x <= v)
            if not (isinstance(mult, int) and 0 <= mult <= 63):
                w.setdefault("wrap", (v, mult))
                continue
            if got > v:
                w.setdefault("exceeds", (v, got))
            if v >= 50 and got == 0:
                w.setdefault("zero", (v, got))
            if got != best:
                w.setdefault("not-largest", (v, got, best))
    for label in sorted(stats, key=lambda s_: int(s_[1:].split(",")[0])):
        w = stats[label]
        loc = fi.loc
        ctx.ob("C20.lt-quantiser", con, f"{label}:multiplier-range", "wrap" not in w,
               f"multiplier stays within 0..63 on {label}" if "wrap" not in w else
               f"requested {w['wrap'][0]} ms gives multiplier {w['wrap'][1]} (6-bit field)", loc)
        ctx.ob("C20.lt-quantiser", con, f"{label}:never-above-request", "exceeds" not in w,
               f"encoded lifetime <= requested on {label}" if "exceeds" not in w else
               f"requested {w['exceeds'][0]} ms is encoded as {w['exceeds'][1]} ms", loc)
        ctx.ob("C20.lt-quantiser", con, f"{label}:non-zero-from-50ms", "zero" not in w,
               f"non-zero on {label}" if "zero" not in w else
               f"requested {w['zero'][0]} ms (>= 50 ms) is encoded as lifetime 0: the packet is dead on arrival", loc)
        ctx.ob("C20.lt-quantiser", con, f"{label}:largest-representable", "not-largest" not in w,
               f"largest representable value not above the request on {label}" if "not-largest" not in w else
               f"requested {w['not-largest'][0]} ms is encoded as {w['not-largest'][1]} ms although "
               f"{w['not-largest'][2]} ms is representable", loc)
    ctx.extra["quantiser_cells"] = len(bps) - 1
    ctx.extra["quantiser_evaluations"] = n_eval
    ctx.extra["exhaustive"] = True
    ctx.floor("C20.lt-quantiser", 8)


def lt_sources(ctx):
    P = ctx.prog
    fi = P.func(f"{BH}.BasicHeader.initialize_with_mib_request_and_rhl")
    fl = ctx.flows.get(fi)
    for c in P.calls_in(fi):
        if dotted(c.func) == "cls" or (isinstance(c.func, ast.Name) and c.func.id == "BasicHeader"):
            st = fl.state_at(c)
            kws = {kw.arg: kw.value for kw in c.keywords if kw.arg}
            alts = sorted(norm(pretty(unparse(a))) for a in fl.alternatives(kws["lt"], st))
            want = sorted(["LT().set_value_in_millis(int(max_packet_lifetime*1000))",
                           "LT().set_value_in_seconds(mib.itsGnDefaultPacketLifetime)"])
            ctx.ob("C20.lt-source", fi.short(), "lt", alts == want,
                   f"LT of an originated packet comes from {alts}; must be the requested lifetime (s -> ms) when given, else "
                   f"the MIB default", f"{fi.module.rel}:{c.lineno}")
            rhl = norm(pretty(unparse(fl.expand(kws["rhl"], st))))
            ctx.ob("C20.lt-source", fi.short(), "rhl", rhl == "rhl", f"RHL field = `{rhl}` (the caller's value)", f"{fi.module.rel}:{c.lineno}")
    # the None test selects the branch
    n = [x for x in ast.walk(fi.node) if isinstance(x, ast.If)]
    ok = any(norm(unparse(x.test)) in ("max_packet_lifetimeisnotNone", "max_packet_lifetimeisNone") for x in n)
    ctx.ob("C20.lt-source", fi.short(), "none-selects-default", ok, "`max_packet_lifetime is not None` selects request vs MIB default", fi.loc)
    sec = P.func(f"{BH}.LT.set_value_in_seconds")
    src = norm(unparse(sec.node.body[-1]))
    ctx.ob("C20.lt-source", sec.short(), "seconds-to-ms", src == f"returnself.set_value_in_millis({sec.params[1]}*1000)",
           f"set_value_in_seconds delegates with x1000 (`{src}`)", sec.loc)
    # indication lifetime: from the received basic header's LT through the reader table
    n_ind = 0
    for h in G.receive_handlers(ctx):
        for s in G.sinks_of(ctx, h):
            if s.kind != "deliver":
                continue
            n_ind += 1
            fl = ctx.flows.get(s.fi)
            kws = {kw.arg: kw.value for kw in s.node.keywords if kw.arg}
            v = norm(pretty(unparse(fl.expand(kws.get("remaining_packet_lifetime", ast.Constant(None)), fl.state_at(s.node)))))
            ctx.ob("C20.lt-indication", s.fi.short(), f"deliver#{n_ind}:lifetime",
                   v == "float(basic_header.lt.get_value_in_seconds())",
                   f"remaining_packet_lifetime = `{v[:80]}`; must be read from the received Basic Header's LT", f"{s.fi.module.rel}:{s.node.lineno}")
            r = norm(pretty(unparse(fl.expand(kws.get("remaining_hop_limit", ast.Constant(None)), fl.state_at(s.node)))))
            ctx.ob("C20.lt-indication", s.fi.short(), f"deliver#{n_ind}:rhl", r == "basic_header.rhl",
                   f"remaining_hop_limit = `{r[:60]}`", f"{s.fi.module.rel}:{s.node.lineno}")
    gs = P.func(f"{BH}.LT.get_value_in_seconds")
    ctx.ob("C20.lt-indication", gs.short(), "floor", norm(unparse(gs.node.body[-1])) == "returnself.get_value_in_millis()//1000",
           "seconds = floor(ms / 1000): the reported lifetime never exceeds the encoded one", gs.loc)
    ctx.floor("C20.lt-indication", 10)


def hops(ctx):
    P = ctx.prog
    router = P.cls(ROUTER)
    n = 0
    for m in router.methods.values():
        fl = ctx.flows.get(m)
        bh_calls = [c for c in P.calls_in(m) if isinstance(c.func, ast.Attribute) and
                    c.func.attr in ("initialize_with_mib_request_and_rhl", "initialize_with_mib_and_rhl") and dotted(c.func.value) == "BasicHeader"]
        for c in bh_calls:
            n += 1
            st = fl.state_at(c)
            rhl = norm(pretty(unparse(fl.expand(c.args[-1], st))))
            lt_arg = norm(pretty(unparse(fl.expand(c.args[1], st)))) if len(c.args) == 3 else "<mib>"
            # matching common header in the same function
            ch = [x for x in P.calls_in(m) if (isinstance(x.func, ast.Attribute) and dotted(x.func.value) == "CommonHeader") or
                  dotted(x.func) == "CommonHeader"]
            mhl = None
            for x in ch:
                xs = fl.state_at(x)
                if isinstance(x.func, ast.Attribute) and x.func.attr == "initialize_with_request":
                    req = norm(pretty(unparse(fl.expand(x.args[0], xs))))
                    if req.startswith("dataclass_replace(request,max_hop_limit="):
                        mhl = req[len("dataclass_replace(request,max_hop_limit="):-1]
                    elif req == "request":
                        mhl = "<request:single-hop=1>"
                elif isinstance(x.func, ast.Attribute) and x.func.attr == "initialize_beacon":
                    mhl = "1"
                else:
                    kws = {kw.arg: kw.value for kw in x.keywords if kw.arg}
                    if "mhl" in kws:
                        mhl = norm(pretty(unparse(fl.expand(kws["mhl"], xs))))
            con = m.short()
            loc = f"{m.module.rel}:{c.lineno}"
            sel = "self.mib.itsGnDefaultHopLimitifrequest.max_hop_limit<=1elserequest.max_hop_limit"
            if rhl == "1":
                ok = mhl in ("1", "<request:single-hop=1>")
                ctx.ob("C20.hops", con, "single-hop", ok, f"RHL 1 with MHL `{mhl}` (single-hop packets and beacons carry 1/1)", loc)
                if mhl == "<request:single-hop=1>":
                    ih = P.func("geonet.common_header.CommonHeader.initialize_with_request")
                    src = norm(unparse(ih.node))
                    ctx.ob("C20.hops", ih.short(), "shb-mhl-1",
                           "ifht==HeaderType.TSBandhst==TopoBroadcastHST.SINGLE_HOP:mhl=1" in src,
                           "CommonHeader.initialize_with_request forces MHL = 1 for SHB", ih.loc)
            else:
                ctx.ob("C20.hops", con, "rhl-selection", rhl in (sel, "self.mib.itsGnDefaultHopLimit"),
                       f"RHL = `{rhl[:110]}`; must be the requested limit when above 1, else itsGnDefaultHopLimit", loc)
                ctx.ob("C20.hops", con, "rhl-equals-mhl", mhl == rhl,
                       f"MHL = `{str(mhl)[:110]}` must be the same value as RHL", loc)
            if len(c.args) == 3:
                ctx.ob("C20.lt-source", con, "lifetime-argument", lt_arg in ("request.max_packet_lifetime", "None"),
                       f"lifetime handed to the Basic Header = `{lt_arg}`", loc)
    if n < 6:
        raise AnalysisError(f"C20: {n} Basic Header initialisations at origination found (confirmed: 7)")
    ih = P.func("geonet.common_header.CommonHeader.initialize_with_request")
    fl = ctx.flows.get(ih)
    for k, s, st in fl.exits:
        if k == "return":
            alts = {norm(pretty(unparse(a))) for a in fl.alternatives(
                [kw.value for kw in s.value.keywords if kw.arg == "mhl"][0], st)}
            ctx.ob("C20.hops", ih.short(), "mhl-from-request", alts == {"1", "request.max_hop_limit"},
                   f"MHL alternatives {sorted(alts)}", f"{ih.module.rel}:{s.lineno}")
    # ---- receiver discards RHL > MHL before any handler
    pch = P.func(f"{ROUTER}.process_common_header")
    fl = ctx.flows.get(pch)
    nh = 0
    for c in P.calls_in(pch):
        tg = [t for t in P.call_targets(pch, c, count=False) if isinstance(t, FuncInfo) and t.name.startswith("gn_data_indicate")]
        if not tg:
            continue
        nh += 1
        st = fl.state_at(c)
        conds = {norm(pretty(f.xkey)): f.pol for f in st.facts if f.kind == "cond"}
        ok = any(v and re.fullmatch(r"CommonHeader\.decode_from_bytes\(packet\[0:8\]\)\.mhl>=basic_header\.rhl", k) for k, v in conds.items())
        ctx.ob("C20.rhl-le-mhl", pch.short(), tg[0].name, ok,
               f"{tg[0].name} is reached only with RHL <= MHL established" if ok else
               f"{tg[0].name} is reachable for packets whose remaining hop limit exceeds the maximum hop limit",
               f"{pch.module.rel}:{c.lineno}")
    ctx.floor("C20.rhl-le-mhl", 7)


def emitted_basic_header(ctx):
    """The Basic Header actually put on the wire at origination is the initialised one (only NH may be re-stamped)."""
    P = ctx.prog
    router = P.cls(ROUTER)
    n = 0
    for m in router.methods.values():
        if not (m.name.startswith("gn_data_request") or m.name.startswith("_send_ls") or m.name == "gn_data_indicate_ls_request"):
            continue
        fl = ctx.flows.get(m)
        for c in P.calls_in(m):
            if not G.is_ll_send(P, m, c):
                continue
            st = fl.state_at(c)
            for alt in fl.alternatives(c.args[0], st):
                ops = G.concat_operands(alt)
                bh = ops[0]
                if not (isinstance(bh, ast.Call) and isinstance(bh.func, ast.Attribute) and bh.func.attr == "encode_to_bytes"):
                    continue
                src = norm(pretty(unparse(bh.func.value)))
                if "basic_header" in src and "initialize" not in src:
                    continue     # forwarded copy of a received header (C06.rhl)
                n += 1
                core = re.sub(r"\.set_nh\(BasicNH\.\w+\)", "", src)
                ok = re.fullmatch(r"BasicHeader\.initialize_with_mib(_request)?_and_rhl\(.*\)", core) is not None and \
                    ".set_rhl(" not in core and ".set_lt(" not in core
                ctx.ob("C20.hops", m.short(), f"emitted-header:{n}", ok,
                       f"Basic Header on the wire = `{src[:150]}`; after initialisation only the NH field may be re-stamped "
                       "(a later set_rhl/set_lt detaches RHL from MHL or LT from the request)", f"{m.module.rel}:{c.lineno}")
    if n < 7:
        raise AnalysisError(f"C20: {n} originated packets recognised (confirmed: 9)")
    G.check_copy_methods(ctx, "C20.copy-faithful", ["geonet.basic_header.BasicHeader"])
    ctx.floor("C20.copy-faithful", 20)


def run(ctx):
    ctx.explanation = (
        "The lifetime quantiser's if-chain is extracted into pieces (interval of the requested value, multiplier form, base); "
        "the reader's unit table is extracted from get_value_in_millis; the pieces are then evaluated by interpreting their "
        "expression trees on both ends of every cell of the partition induced by the 256 representable lifetimes inside "
        "[0, 7 000 000] ms - on each cell both the quantiser and 'largest representable <= v' are constant or monotone "
        "steps, so the comparison is exact and exhaustive. Provenance rules decide where LT, RHL and MHL of every originated "
        "packet and of every indication come from; a guard rule puts RHL <= MHL in front of every receive handler.")
    ctx.declined = ["bit positions of LT/RHL/MHL (decided by C02.layout)"]
    quantiser(ctx)
    lt_sources(ctx)
    hops(ctx)
    emitted_basic_header(ctx)
