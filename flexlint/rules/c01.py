"""C01 - end-to-end payload delivery between stations through BTP and GeoNetworking.

Decides (structure): framing agreement between originator and receiver (every slice constant applied by a consumer
equals the length of the codec it strips); the port demultiplexing key; completeness of request / indication forwarding
across the BTP <-> GN boundary; payload provenance on both sides; delivery guards (addressee only, upper layer called
only with an indication); the location-service buffering protocol; uniform treatment of the security switch at
origination.  Hemisphere arithmetic: C02.signed.  Geometry: C07.  Duplicates / own address: C06.
Does not decide "exactly once / in request order" over histories, nor byte identity as a value fact.
"""
from __future__ import annotations

import ast
import re

from ..prog import AnalysisError, ClassInfo, FuncInfo, dotted, unparse
from ..layout import writer_table
from ..match import pretty, CallSummaries
from ..spec import gn_layouts as S
from . import gnutil as G

PROP = "C01"
ROUTER = "geonet.router.Router"
BTPR = "btp.router.Router"


def norm(s):
    return re.sub(r"\s+", "", s)


def codec_len(ctx, cls_suffix: str) -> int:
    layout, _ = S.CODECS[cls_suffix]
    return S.positions(layout)[1] // 8


def frames(ctx):
    P = ctx.prog
    # ---- GN dispatcher: basic 4, common 8
    for fname, cls, n in (("process_basic_header", "geonet.basic_header.BasicHeader", 4),
                          ("process_common_header", "geonet.common_header.CommonHeader", 8)):
        fi = P.func(f"{ROUTER}.{fname}")
        want = codec_len(ctx, cls)
        src = norm(unparse(fi.node))
        head = f"decode_from_bytes(packet[0:{want}])" in src
        tail = (f"=packet[{want}:]" in src)
        ctx.ob("C01.frame", fi.short(), "strip", head and tail and want == n,
               f"{fname} decodes packet[0:{want}] and continues with packet[{want}:] (codec length {want})" if head and tail else
               f"{fname}: header slice / residual do not both use the codec length {want}", fi.loc)
    # ---- extended headers
    for h in G.receive_handlers(ctx):
        fl = ctx.flows.get(h.fi)
        cls = h.ext_cls
        key = [k for k in S.CODECS if k.endswith("." + cls.name)]
        want = codec_len(ctx, key[0])
        arg = norm(unparse(h.decode_call.args[0]))
        ok_head = arg == f"packet[0:{want}]"
        ctx.ob("C01.frame", h.fi.short(), "header-slice", ok_head,
               f"{cls.name} is {want} octets; handler decodes `{arg}`", f"{h.fi.module.rel}:{h.decode_call.lineno}")
        # residual payload used by the sinks
        for s in G.sinks_of(ctx, h):
            if s.kind != "deliver" or s.fi is not h.fi:
                continue
            st = fl.state_at(s.node)
            kws = {kw.arg: kw.value for kw in s.node.keywords if kw.arg}
            data = norm(pretty(unparse(fl.expand(kws["data"], st))))
            extra = 4 if cls.name == "LongPositionVector" else 0       # SHB media-dependent data
            want_data = f"packet[{want}:]" + (f"[{extra}:]" if extra else "")
            ctx.ob("C01.ind-fwd", h.fi.short(), "data", data == want_data,
                   f"indication data = `{data}`; payload starts after the {want}-octet extended header" +
                   (f" and the {extra} media-dependent octets" if extra else "") + f" (`{want_data}`)", f"{h.fi.module.rel}:{s.node.lineno}")
            ln = norm(pretty(unparse(fl.expand(kws["length"], st))))
            ctx.ob("C01.ind-fwd", h.fi.short(), "length", ln == f"len({want_data})", f"length = `{ln}`", f"{h.fi.module.rel}:{s.node.lineno}")
            dec = norm(pretty(unparse(fl.expand(h.decode_call, fl.state_at(h.decode_call)))))
            spv = norm(pretty(unparse(fl.expand(kws["source_position_vector"], st))))
            want_pv = dec if cls.name == "LongPositionVector" else f"{dec}.so_pv"
            ctx.ob("C01.ind-fwd", h.fi.short(), "source-pv", spv == want_pv,
                   f"source_position_vector = `{spv[:70]}`; must be the packet's SO PV", f"{h.fi.module.rel}:{s.node.lineno}")
            for k, w in (("upper_protocol_entity", "common_header.nh"), ("traffic_class", "common_header.tc")):
                v = norm(pretty(unparse(fl.expand(kws[k], st))))
                ctx.ob("C01.ind-fwd", h.fi.short(), k, v == w, f"{k} = `{v}` (must be {w})", f"{h.fi.module.rel}:{s.node.lineno}")
            ptt = norm(pretty(unparse(fl.expand(kws["packet_transport_type"], st))))
            ht = {"gn_data_indicate_shb": "HeaderType.TSB", "gn_data_indicate_tsb": "HeaderType.TSB",
                  "gn_data_indicate_gbc": "HeaderType.GEOBROADCAST", "gn_data_indicate_gac": "HeaderType.GEOANYCAST",
                  "gn_data_indicate_guc": "HeaderType.GEOUNICAST"}.get(h.fi.name)
            if ht:
                ctx.ob("C01.ind-fwd", h.fi.short(), "transport-type", f"header_type={ht}" in ptt,
                       f"packet_transport_type = `{ptt[:90]}`", f"{h.fi.module.rel}:{s.node.lineno}")
    # ---- SHB media-dependent octets: same count on both sides
    shb = P.func(f"{ROUTER}.gn_data_request_shb")
    md = [n for n in ast.walk(shb.node) if isinstance(n, ast.Assign) and dotted(n.targets[0]) == "media_dependant_data"]
    mdl = len(P.try_fold(shb.module, md[0].value) or b"") if md else -1
    ctx.ob("C01.frame", shb.short(), "media-dependent", mdl == 4,
           f"SHB originator appends {mdl} media-dependent octets; the receiver skips 4", shb.loc)
    # ---- BTP: 4-octet header on both sides
    bi = P.func("btp.service_access_point.BTPDataIndication.initialize_with_gn_data_indication")
    fl = ctx.flows.get(bi)
    for k, s, st in fl.exits:
        if k == "return":
            kws = {kw.arg: kw.value for kw in s.value.keywords if kw.arg}
            d = norm(pretty(unparse(fl.expand(kws["data"], st))))
            ctx.ob("C01.frame", bi.short(), "btp-strip", d == "gn_data_indication.data[4:]",
                   f"BTP payload = `{d}` (BTP header is 4 octets)", f"{bi.module.rel}:{s.lineno}")
            ln = norm(pretty(unparse(fl.expand(kws["length"], st))))
            ctx.ob("C01.ind-fwd", bi.short(), "btp-length", ln == "len(gn_data_indication.data[4:])", f"length = `{ln}`", f"{bi.module.rel}:{s.lineno}")
            for k2, w in (("gn_packet_transport_type", "gn_data_indication.packet_transport_type"),
                          ("gn_source_position_vector", "gn_data_indication.source_position_vector"),
                          ("gn_traffic_class", "gn_data_indication.traffic_class")):
                v = norm(pretty(unparse(fl.expand(kws.get(k2, ast.Constant(None)), st))))
                ctx.ob("C01.ind-fwd", bi.short(), k2, v == w, f"{k2} = `{v}`", f"{bi.module.rel}:{s.lineno}")
    for hn in ("BTPAHeader", "BTPBHeader"):
        tot, _ = writer_table(P, P.cls(f"btp.btp_header.{hn}").methods["encode"])
        ctx.ob("C01.frame", f"btp.btp_header.{hn}.encode", "length", tot == 32, f"{hn} is {tot} bits on the wire", "")
    ctx.floor("C01.frame", 14)
    ctx.floor("C01.ind-fwd", 30)


def demux(ctx):
    P = ctx.prog
    r = P.cls(BTPR)
    n = 0
    for m in r.methods.values():
        fl = ctx.flows.get(m)
        for c in P.calls_in(m):
            if isinstance(c.func, ast.Attribute) and c.func.attr == "get" and "indication_callbacks" in unparse(c.func.value):
                n += 1
                st = fl.state_at(c)
                kx = fl.expand(c.args[0], st)
                # look through `<construction or copy>(destination_port=X, ...).destination_port`
                for _ in range(4):
                    if isinstance(kx, ast.Attribute) and kx.attr == "destination_port" and isinstance(kx.value, ast.Call):
                        kw = [w.value for w in kx.value.keywords if w.arg == "destination_port"]
                        if kw:
                            kx = kw[0]
                            continue
                    break
                k = norm(pretty(unparse(kx)))
                hdr = "BTPBHeader" if "btp_b" in m.name else "BTPAHeader"
                ok = k == f"{hdr}.decode(gn_data_indication.data).destination_port"
                ctx.ob("C01.demux", m.short(), f"lookup#{n}", ok,
                       f"handler is looked up by `{k[-110:]}`; must be the DESTINATION port decoded from this packet's BTP header",
                       f"{m.module.rel}:{c.lineno}")
                # the indication handed to the callback carries the decoded ports
        for c in P.calls_in(m):
            if isinstance(c.func, ast.Name) and c.func.id == "callback":
                st = fl.state_at(c)
                conds = {norm(pretty(f.xkey)): f.pol for f in st.facts if f.kind == "cond"}
                arg = fl.expand(c.args[0], st)
                a = norm(pretty(unparse(arg)))
                ctx.ob("C01.demux", m.short(), "callback-arg-ports", "destination_port=" in a and ".decode(gn_data_indication.data).destination_port" in a,
                       f"callback receives the indication with the decoded ports (`{a[:80]}`)", f"{m.module.rel}:{c.lineno}")
                ctx.ob("C01.demux", m.short(), "callback-arg-payload",
                       "BTPDataIndication.initialize_with_gn_data_indication(gn_data_indication)" in a,
                       "callback receives the payload/PV/transport type taken from the GN indication", f"{m.module.rel}:{c.lineno}")
    ctx.floor("C01.demux", 6)
    bd = P.func(f"{BTPR}.btp_data_indication")
    src = norm(unparse(bd.node))
    ctx.ob("C01.demux", bd.short(), "nh-dispatch",
           "ifgn_data_indication.upper_protocol_entity==CommonNH.BTP_B:self.btp_b_data_indication(gn_data_indication)" in src and
           "elifgn_data_indication.upper_protocol_entity==CommonNH.BTP_A:self.btp_a_data_indication(gn_data_indication)" in src,
           "BTP-A / BTP-B parsing selected by the common header's NH", bd.loc)


REQ_FWD = {   # GNDataRequest keyword <- BTPDataRequest attribute
    "upper_protocol_entity": "btp_type", "packet_transport_type": "gn_packet_transport_type", "area": "gn_area",
    "communication_profile": "communication_profile", "traffic_class": "traffic_class", "security_profile": "security_profile",
    "its_aid": "its_aid", "security_permissions": "security_permissions", "max_hop_limit": "gn_max_hop_limit",
    "max_packet_lifetime": "gn_max_packet_lifetime", "destination": "gn_destination_address",
}


def req_fwd(ctx):
    P = ctx.prog
    fi = P.func(f"{BTPR}.btp_data_request")
    fl = ctx.flows.get(fi)
    n = 0
    for c in P.calls_in(fi):
        tg = [t for t in P.call_targets(fi, c, count=False) if isinstance(t, ClassInfo) and t.name == "GNDataRequest"]
        if not tg:
            continue
        n += 1
        st = fl.state_at(c)
        conds = {norm(pretty(f.xkey)): f.pol for f in st.facts if f.kind == "cond"}
        branch = "BTP_B" if conds.get("request.btp_type==CommonNH.BTP_B") else "BTP_A"
        kws = {kw.arg: kw.value for kw in c.keywords if kw.arg}
        for k, src in REQ_FWD.items():
            if k not in kws:
                ctx.ob("C01.req-fwd", fi.short(), f"{branch}:{k}", False,
                       f"GNDataRequest is built without `{k}`: BTPDataRequest.{src} never reaches the GeoNetworking layer" +
                       (" (every GeoUnicast issued through BTP has no destination)" if k == "destination" else ""),
                       f"{fi.module.rel}:{c.lineno}")
                continue
            v = norm(pretty(unparse(fl.expand(kws[k], st))))
            ctx.ob("C01.req-fwd", fi.short(), f"{branch}:{k}", v == f"request.{src}",
                   f"{k} = `{v}` (must be request.{src})", f"{fi.module.rel}:{c.lineno}")
        d = norm(pretty(unparse(fl.expand(kws.get("data", ast.Constant(None)), st))))
        hdr = "BTPBHeader(destination_port=request.destination_port,destination_port_info=request.destination_port_info)" \
            if branch == "BTP_B" else "BTPAHeader(destination_port=request.destination_port,source_port=request.source_port)"
        ctx.ob("C01.req-fwd", fi.short(), f"{branch}:data", d == f"{hdr}.encode()+request.data",
               f"GN payload = `{d[:120]}`; must be <BTP header of the request's ports>.encode() + request.data",
               f"{fi.module.rel}:{c.lineno}")
    if n != 2:
        raise AnalysisError(f"C01: {n} GNDataRequest constructions in btp_data_request (confirmed: 2)")
    calls = [c for c in P.calls_in(fi) if isinstance(c.func, ast.Attribute) and c.func.attr == "gn_data_request"]
    ctx.ob("C01.req-fwd", fi.short(), "handed-down", len(calls) == 2, f"{len(calls)} hand-over(s) to gn_data_request", fi.loc)


def addressee(ctx):
    P = ctx.prog
    h = [x for x in G.receive_handlers(ctx) if x.fi.name == "gn_data_indicate_guc"][0]
    fl = ctx.flows.get(h.fi)
    for s in G.sinks_of(ctx, h):
        if s.kind == "deliver":
            conds = {norm(pretty(f.xkey)): f.pol for f in fl.state_at(s.node).facts if f.kind == "cond"}
            ok = any(v and re.fullmatch(r"GUCExtendedHeader\.decode\(packet\[0:48\]\)\.de_pv\.gn_addr==self\.mib\.itsGnLocalGnAddr", k)
                     for k, v in conds.items())
            ctx.ob("C01.addressee", h.fi.short(), "unicast-for-me", ok,
                   "GeoUnicast payload is delivered only when the packet's DE address is the own GN address",
                   f"{h.fi.module.rel}:{s.node.lineno}")
        if s.kind == "send":
            conds = {norm(pretty(f.xkey)): f.pol for f in fl.state_at(s.node).facts if f.kind == "cond"}
            ok = any((not v) and re.fullmatch(r"GUCExtendedHeader\.decode\(packet\[0:48\]\)\.de_pv\.gn_addr==self\.mib\.itsGnLocalGnAddr", k)
                     for k, v in conds.items())
            ctx.ob("C01.addressee", h.fi.short(), "forward-not-mine", ok, "GeoUnicast is forwarded only when addressed to another station",
                   f"{h.fi.module.rel}:{s.node.lineno}")
    pch = P.func(f"{ROUTER}.process_common_header")
    fl = ctx.flows.get(pch)
    ups = [c for c in P.calls_in(pch) if dotted(c.func) == "self.indication_callback"]
    for c in ups:
        st = fl.state_at(c)
        conds = {norm(pretty(f.xkey)): f.pol for f in st.facts if f.kind == "cond"}
        arg = norm(pretty(unparse(c.args[0])))
        ok = any((k.endswith("isNone") and v is False) for k, v in conds.items()) or conds.get("self.indication_callbackandindicationisnotNone") is True
        ctx.ob("C01.addressee", pch.short(), "upcall-only-with-indication", ok,
               f"upper layer is called only with a real indication (`{arg}` not None)", f"{pch.module.rel}:{c.lineno}")
        alts = {norm(pretty(unparse(a)))[:40] for a in fl.alternatives(c.args[0], st)}
        bad = [a for a in alts if not (a.startswith("self.gn_data_indicate_") or a.startswith("GNDataIndication()"))]
        ctx.ob("C01.addressee", pch.short(), "upcall-source", not bad,
               f"the indication handed up is the handler's return value ({sorted(alts)})", f"{pch.module.rel}:{c.lineno}")
    if len(ups) != 1:
        raise AnalysisError(f"C01: {len(ups)} upper-layer call sites in process_common_header (confirmed: 1)")


def location_service(ctx):
    P = ctx.prog
    cs = CallSummaries(P, ctx.flows)
    guc = P.func(f"{ROUTER}.gn_data_request_guc")
    fl = ctx.flows.get(guc)
    for c in P.calls_in(guc):
        if G.is_ll_send(P, guc, c):
            st = fl.state_at(c)
            conds = {norm(pretty(f.xkey)): f.pol for f in st.facts if f.kind == "cond"}
            known = any(v is False and k.endswith("isNone") and "get_entry(request.destination)" in k for k, v in conds.items())
            not_pending = any((v is False and (k.endswith(".ls_pending") or k == "request.destinationinself._ls_packet_buffers"))
                              for k, v in conds.items())
            ctx.ob("C01.ls", guc.short(), "send-needs-known-destination", known,
                   "a GeoUnicast is sent only when a LocTE of the destination exists", f"{guc.module.rel}:{c.lineno}")
            ctx.ob("C01.ls", guc.short(), "send-not-while-lookup-pending", not_pending,
                   "a GeoUnicast is sent only when no location-service lookup is pending for the destination" if not_pending else
                   "gn_ls_request creates a placeholder LocTE (ls_pending = True, all-zero PV); a second unicast request issued "
                   "while the lookup is pending finds that entry and is SENT AT ONCE with an all-zero DE PV instead of being "
                   "buffered (guard only tests `de_entry is None`)", f"{guc.module.rel}:{c.lineno}")
    # the request that triggers / meets a lookup is stored on both branches of gn_ls_request
    ls = P.func(f"{ROUTER}.gn_ls_request")
    fl = ctx.flows.get(ls)
    stores = []
    for n in ast.walk(ls.node):
        if isinstance(n, ast.Call) and isinstance(n.func, ast.Attribute) and n.func.attr == "append" and "_ls_packet_buffers" in unparse(n.func.value):
            stores.append(("pending", n))
        if isinstance(n, ast.Assign) and isinstance(n.targets[0], ast.Subscript) and dotted(n.targets[0].value) == "self._ls_packet_buffers":
            stores.append(("new", n))
    kinds = {k for k, _ in stores}
    ctx.ob("C01.ls", ls.short(), "request-buffered-on-both-branches", kinds == {"pending", "new"},
           f"the triggering request is stored when a lookup is already pending and when a new one starts ({sorted(kinds)})", ls.loc)
    for k, n in stores:
        st = fl.state_at(n)
        conds = {norm(pretty(f.xkey)): f.pol for f in st.facts if f.kind == "cond"}
        if k == "pending":
            ok = unparse(n.args[0]) == "buffered_request" and "setdefault(sought_gn_addr,[])" in norm(unparse(n.func.value))
            ctx.ob("C01.ls", ls.short(), "pending:append", ok, "a request meeting a pending lookup is APPENDED to the buffer of that address",
                   f"{ls.module.rel}:{n.lineno}")
        else:
            v = norm(unparse(n.value))
            ctx.ob("C01.ls", ls.short(), "new:store", v == "[buffered_request]ifbuffered_requestisnotNoneelse[]",
                   f"a new lookup starts its buffer with the triggering request (`{v}`)", f"{ls.module.rel}:{n.lineno}")
    # reply handler: pop, flush each through gn_data_request_guc, reset ls_pending, cancel timer
    rp = P.func(f"{ROUTER}.gn_data_indicate_ls_reply")
    src = norm(unparse(rp.node))
    fl = ctx.flows.get(rp)
    flush = [n for n in ast.walk(rp.node) if isinstance(n, ast.For) and "gn_data_request_guc" in unparse(n)]
    ok = bool(flush)
    if ok:
        st = fl.state_at(flush[0])
        it = norm(pretty(unparse(fl.expand(flush[0].iter, st))))
        ok = "_ls_packet_buffers.pop(" in it and norm(unparse(flush[0].body[0])) == f"self.gn_data_request_guc({unparse(flush[0].target)})"
        conds = {norm(pretty(f.xkey)): f.pol for f in st.facts if f.kind == "cond"}
        mine = any(v and k.endswith(".de_pv.gn_addr==self.mib.itsGnLocalGnAddr") for k, v in conds.items())
        ctx.ob("C01.ls", rp.short(), "flush-only-requester", mine, "buffer is flushed by the station the reply is addressed to", rp.loc)
        unguarded = [k for k, v in conds.items() if "ls_pending" in k or ("isNone" in k and "get_entry" in k and v is False)]
        ctx.ob("C01.ls", rp.short(), "flush-unconditional", not unguarded,
               "the flush does not depend on the LocTE still carrying ls_pending (the placeholder may have been replaced)" if not unguarded
               else f"the flush is additionally guarded by {unguarded}: a reply arriving after the placeholder was replaced drops the buffer",
               rp.loc)
    ctx.ob("C01.ls", rp.short(), "flush", ok, "every buffered request is re-issued through gn_data_request_guc from the popped buffer", rp.loc)
    ctx.ob("C01.ls", rp.short(), "reset-pending", "entry.ls_pending=False" in src, "ls_pending is reset on reply", rp.loc)
    ctx.ob("C01.ls", rp.short(), "cancel-timer", "timer.cancel()" in src and "_ls_timers.pop(" in src, "retransmit timer cancelled on reply", rp.loc)
    rt = P.func(f"{ROUTER}._ls_retransmit")
    src = norm(unparse(rt.node))
    ctx.ob("C01.ls", rt.short(), "give-up", "self._ls_packet_buffers.pop(sought_gn_addr,None)" in src and "entry.ls_pending=False" in src
           and "count>=self.mib.itsGnLocationServiceMaxRetrans" in src,
           "after the last retry the buffer is discarded and ls_pending reset", rt.loc)
    ctx.floor("C01.ls", 10)


def sec_switch(ctx):
    """Every origination function treats the security switch the same way (a receiver with security ENABLED drops every
    unsecured packet, so an originator that never secures a packet type cannot reach such receivers)."""
    P = ctx.prog
    router = P.cls(ROUTER)
    for name in ("gn_data_request_shb", "gn_data_request_gbc", "gn_data_request_guc", "gn_data_request_beacon",
                 "_send_ls_request_packet", "gn_data_indicate_ls_request"):
        m = router.methods.get(name)
        if m is None:
            raise AnalysisError(f"C01: origination function {name} vanished")
        src = unparse(m.node)
        consults = "itsGnSecurity" in src
        signs = "sign_service.sign" in src
        ctx.ob("C01.sec-switch", m.short(), "consults-itsGnSecurity", consults,
               f"{name} " + ("selects secured/unsecured encapsulation from mib.itsGnSecurity" if consults else
                             ("signs only for one security profile and " if signs else "never secures its packets and ") +
                             "does not consult mib.itsGnSecurity: with security ENABLED every peer drops these packets "
                             "(process_basic_header) and, with security DISABLED, profile-signed ones are still sent secured"),
               m.loc)


def run(ctx):
    ctx.explanation = (
        "Layout / provenance / guard rules across the BTP <-> GN boundary. Framing: every slice constant a consumer applies "
        "(packet[0:N], packet[N:], data[4:], the 4 media-dependent octets) must equal the wire length of the codec it strips "
        "(lengths come from the codec layout tables of C02). Forwarding completeness: every GNDataRequest keyword is fed by "
        "the same-named BTPDataRequest attribute on both BTP branches, every indication field by the decoded packet. "
        "Demultiplexing: the handler table is indexed by the decoded destination port. Guards: unicast delivery only for "
        "the own address, up-call only with an indication, unicast emission only for a known destination whose lookup is not "
        "pending; buffering protocol of the location service. Each rule is universal over payloads, ports and orders.")
    ctx.declined = ["exactly once / in request order over histories", "byte identity as a value fact",
                    "geometry (C07), signature round trip (C03/C05), duplicate handling (C06)"]
    frames(ctx)
    demux(ctx)
    req_fwd(ctx)
    addressee(ctx)
    location_service(ctx)
    sec_switch(ctx)
