"""C01 - end-to-end payload delivery between stations through BTP and GeoNetworking.

Decides (structure): framing agreement (frame: every slice constant a consumer applies - basic / common / extended
header, the 4 SHB media-dependent octets, the 4-octet BTP header - equals the length of the codec it strips); indication
provenance (ind-fwd: payload, length, SO PV, next header, traffic class and transport type of every GN and BTP
indication come from the decoded packet); demultiplexing (demux: each BTP type is parsed by its own header class, the
handler is looked up by the decoded DESTINATION port, every field of its indication is followed to the received one,
and an indication is dropped without a handler call only when no handler is registered or the BTP header is
incomplete); request forwarding (req-fwd: every GNDataRequest keyword is fed by the matching BTPDataRequest attribute on
both BTP branches, payload = BTP header of the request's ports + data, every built request is handed down; every path
of a gn_data_request* function that answers ACCEPTED while a link layer is configured contains a link-layer send, a
store into the location-service / contention buffer or a call of another origination function); delivery guards
(addressee: unicast delivered only under DE address == own address, forwarded only otherwise, upper layer called only
with a non-None indication returned by a receive handler); the location-service buffering protocol (ls: unicast sent
only for a known destination with no lookup pending; the request appended / stored on both branches; the addressed
requester flushes the popped buffer in order, resets ls_pending, cancels the timer; giving up discards the buffer and
resets the flag); the security switch (sec-switch: every originating send is secured exactly under itsGnSecurity ==
ENABLED).  Hemisphere arithmetic: C02.signed.  Geometry: C07.  Duplicates / own address: C06.
Does not decide "exactly once / in request order" over histories, byte identity as a value fact, nor that a buffered or
delegated packet is eventually transmitted (run properties).

Values are compared after expansion through the flow and normalisation by `Sym` (dataclass constructions field by
field, also through re-packaging helpers and dataclasses.replace; x[a:][b:] == x[a+b:]) as canonical text (sem.cx),
guards as canonical atoms (sem.atoms).
"""
from __future__ import annotations

import ast
import re
import copy
from typing import Optional

from ..prog import AnalysisError, ClassInfo, FuncInfo, dotted, unparse
from ..layout import writer_table
from ..match import pretty
from ..spec import gn_layouts as S
from .. import sem
from . import gnutil as G

PROP = "C01"
ROUTER = "geonet.router.Router"
BTPR = "btp.router.Router"
SHB_MEDIA_OCTETS = 4          # EN 302 636-4-1 9.8.4: SHB extended header = SO PV (24) + 4 media-dependent octets
BTP_HEADER_OF_NH = {"BTP_A": "BTPAHeader", "BTP_B": "BTPBHeader"}    # EN 302 636-5-1 clause 7 / CommonNH code points


def codec_len(ctx, cls_suffix: str) -> int:
    layout, _ = S.CODECS[cls_suffix]
    return S.positions(layout)[1] // 8


def show(e) -> str:
    return pretty(unparse(e)) if e is not None else "<absent>"


# ---------------------------------------------------------------------------------------------------------------
# symbolic normal form
# ---------------------------------------------------------------------------------------------------------------
class Sym:
    """Normal form of expanded expressions; see module docstring.  Contexts: the function the expression was taken
    from plus every helper whose body was inlined (names are resolved in the first context that knows them)."""

    def __init__(self, ctx, fi: FuncInfo):
        self.P = ctx.prog
        self.ctxs = [fi]

    # ------------------------------------------------------------ resolution
    def targets(self, call: ast.Call) -> list:
        q = getattr(call.func, "_ciq", None)
        if q:
            return [self.P.classes[q]]
        for f in reversed(self.ctxs):
            try:
                t = [x for x in self.P.call_targets(f, call, count=False, cha=False) if not isinstance(x, str)]
            except Exception:
                t = []
            if t:
                return t
        return []

    def types(self, e: ast.AST) -> set:
        out = set()
        for f in reversed(self.ctxs):
            out = {t for t in self.P.expr_types(f, e) if isinstance(t, str)}
            if out:
                break
        return out

    def fold_int(self, e) -> Optional[int]:
        if e is None:
            return None
        for f in self.ctxs:
            v = self.P.try_fold(f.module, e)
            if isinstance(v, int) and not isinstance(v, bool):
                return v
        return None

    # ------------------------------------------------------------ records
    def all_fields(self, ci: ClassInfo) -> list:
        out = []
        for c in reversed(ci.mro()):
            for f, (ann, _) in c.fields.items():
                if ann is not None and f not in out:
                    out.append(f)
        return out

    def _default(self, ci: ClassInfo, name: str) -> ast.AST:
        for c in ci.mro():
            if name in c.fields:
                d = c.fields[name][1]
                if d is None:
                    break
                if isinstance(d, ast.Call) and (dotted(d.func) or "").split(".")[-1] == "field":
                    for kw in d.keywords:
                        if kw.arg == "default_factory":
                            n = ast.Call(func=copy.deepcopy(kw.value), args=[], keywords=[])
                            n._default = True
                            return n
                        if kw.arg == "default":
                            n = copy.deepcopy(kw.value)
                            n._default = True
                            return n
                    break
                n = copy.deepcopy(d)
                n._default = True
                return n
        n = ast.Name(id="<required>", ctx=ast.Load())
        n._default = True
        return n

    def _ctor(self, ci: ClassInfo, call: ast.Call):
        if not ci.dataclass or any("__init__" in c.methods for c in ci.mro()):
            return None
        names = self.all_fields(ci)
        given = {}
        for i, a in enumerate(call.args):
            if isinstance(a, ast.Starred) or i >= len(names):
                return None
            given[names[i]] = a
        for kw in call.keywords:
            if kw.arg is None or kw.arg not in names:
                return None
            given[kw.arg] = kw.value
        return ci, {n: (given[n] if n in given else self._default(ci, n)) for n in names}

    def _is_dc_replace(self, func: ast.AST) -> bool:
        d = dotted(func)
        if d is None:
            return False
        for f in self.ctxs:
            imp = f.module.imports.get(d.split(".")[0])
            if imp == ("attr", "dataclasses", "replace") and "." not in d:
                return True
            if imp == ("mod", "dataclasses") and d.split(".")[1:] == ["replace"]:
                return True
        return False

    def inline(self, call: ast.Call, callee: FuncInfo, skeleton: bool = False):
        """`return` expression of a helper of the shape `[name = expr]*; return expr`, parameters replaced by the
        arguments of `call` (self -> receiver, cls -> the class); None for any other shape.  skeleton: parameters stay
        as names (used to judge the helper's own body)."""
        body = [b for b in callee.node.body if not (isinstance(b, ast.Expr) and isinstance(b.value, ast.Constant))]
        if not body or not isinstance(body[-1], ast.Return) or body[-1].value is None:
            return None
        locs = {}
        for b in body[:-1]:
            if isinstance(b, ast.Assign) and len(b.targets) == 1 and isinstance(b.targets[0], ast.Name):
                locs[b.targets[0].id] = b.value
            elif isinstance(b, ast.AnnAssign) and isinstance(b.target, ast.Name) and b.value is not None:
                locs[b.target.id] = b.value
            elif isinstance(b, (ast.Import, ast.ImportFrom, ast.Pass)):
                continue
            else:
                return None
        a = callee.node.args
        if a.vararg or a.kwarg or a.kwonlyargs:
            return None
        params = callee.params
        off = 1 if callee.kind in ("method", "classmethod") and params else 0
        amap = {}
        for i, x in enumerate(call.args):
            if isinstance(x, ast.Starred) or i + off >= len(params):
                return None
            amap[params[i + off]] = x
        for kw in call.keywords:
            if kw.arg is None or kw.arg not in params[off:]:
                return None
            amap[kw.arg] = kw.value
        defaults = a.defaults
        for p_, d_ in zip(params[len(params) - len(defaults):], defaults):
            amap.setdefault(p_, d_)
        if any(p_ not in amap for p_ in params[off:]):
            return None
        if off and callee.kind == "method":
            if not isinstance(call.func, ast.Attribute):
                return None
            amap[params[0]] = call.func.value
        elif off and callee.kind == "classmethod":
            cq = callee.cls.qual
            if isinstance(call.func, ast.Attribute):
                ts = [t[5:] for t in self.types(call.func.value) if t.startswith("type:") and t[5:] in self.P.classes]
                if len(ts) == 1:
                    cq = ts[0]
            n = ast.Name(id=self.P.classes[cq].name, ctx=ast.Load())
            n._ciq = cq
            amap[params[0]] = n
        if skeleton:
            amap = {k: (v if getattr(v, "_ciq", None) else ast.Name(id=k, ctx=ast.Load())) for k, v in amap.items()}

        class Sub(ast.NodeTransformer):
            def visit_Name(s2, n):
                if n.id in locs:
                    return s2.visit(copy.deepcopy(locs[n.id]))
                if n.id in amap:
                    return copy.deepcopy(amap[n.id])
                return n

            def visit_Lambda(s2, n):
                return n
        return Sub().visit(copy.deepcopy(body[-1].value))

    def _repack(self, v: ast.AST, depth: int) -> bool:
        """The value only moves data around (attribute chains, constant slices, len, nested constructions)."""
        if isinstance(v, (ast.Name, ast.Constant)):
            return True
        if isinstance(v, ast.Attribute):
            return self._repack(v.value, depth)
        if isinstance(v, ast.Subscript):
            sl = v.slice
            if isinstance(sl, ast.Slice):
                ok = all(x is None or self.fold_int(x) is not None for x in (sl.lower, sl.upper)) and sl.step is None
            else:
                ok = isinstance(sl, ast.Constant)
            return ok and self._repack(v.value, depth)
        if isinstance(v, ast.Call):
            d = dotted(v.func)
            args = list(v.args) + [k.value for k in v.keywords]
            if d in ("len", "getattr"):
                return all(self._repack(x, depth) for x in args)
            if depth > 0 and self.record(v, depth - 1) is not None:
                return True
            tg = self.targets(v)
            if len(tg) == 1 and isinstance(tg[0], ClassInfo):
                return all(self._repack(x, depth) for x in args)
        return False

    def record(self, e: ast.AST, depth: int = 5):
        """(ClassInfo, {field: value expression}) when `e` certainly evaluates to a fresh dataclass instance whose
        fields are known expressions; None otherwise."""
        if depth <= 0 or not isinstance(e, ast.Call):
            return None
        if self._is_dc_replace(e.func):
            if len(e.args) != 1 or any(kw.arg is None for kw in e.keywords):
                return None
            base = self.record(self.norm(e.args[0]), depth - 1)
            if base is None:
                return None
            ci, f = base
            f = dict(f)
            for kw in e.keywords:
                if kw.arg not in f:
                    return None
                f[kw.arg] = kw.value
            return ci, f
        tg = self.targets(e)
        if len(tg) != 1:
            return None
        t = tg[0]
        if isinstance(t, ClassInfo):
            return self._ctor(t, e)
        if isinstance(t, FuncInfo) and t.kind in ("method", "classmethod", "staticmethod", "function"):
            inl = self.inline(e, t)
            if inl is None:
                return None
            added = t not in self.ctxs
            if added:
                self.ctxs.append(t)
            sk = self.inline(e, t, skeleton=True)
            if isinstance(sk, ast.Call) and self._is_dc_replace(sk.func):
                pure = all(self._repack(v, depth - 1) for v in list(sk.args) + [k.value for k in sk.keywords])
            else:
                skel = self.record(sk, depth - 1)
                pure = skel is not None and all(self._repack(v, depth - 1) for v in skel[1].values())
            r = self.record(inl, depth - 1) if pure else None
            if r is None and added:
                self.ctxs.remove(t)
            return r
        return None

    # ------------------------------------------------------------ normal form
    def norm(self, e: ast.AST, depth: int = 10) -> ast.AST:
        n = self._norm(e, depth)
        if getattr(e, "_default", False) and n is not None and not getattr(n, "_default", False):
            if n is e:
                n = copy.copy(e)
            n._default = True
        return n

    def _norm(self, e: ast.AST, depth: int) -> ast.AST:
        if e is None or depth <= 0:
            return e
        if isinstance(e, ast.Attribute):
            v = self.norm(e.value, depth - 1)
            rec = self.record(v)
            if rec is not None and e.attr in rec[1]:
                return self.norm(rec[1][e.attr], depth - 1)
            return ast.Attribute(value=v, attr=e.attr, ctx=ast.Load())
        if isinstance(e, ast.Subscript):
            v = self.norm(e.value, depth - 1)
            sl = e.slice
            if isinstance(sl, ast.Slice) and sl.step is None:
                lo = 0 if sl.lower is None else self.fold_int(sl.lower)
                hi = None if sl.upper is None else self.fold_int(sl.upper)
                if lo is not None and lo >= 0 and (sl.upper is None or (hi is not None and hi >= 0)):
                    if isinstance(v, ast.Subscript) and isinstance(v.slice, ast.Slice) and getattr(v, "_const", False):
                        a = v.slice.lower.value
                        b = v.slice.upper.value if v.slice.upper is not None else None
                        stops = [x for x in (b, (a + hi) if hi is not None else None) if x is not None]
                        lo, hi, v = a + lo, (min(stops) if stops else None), v.value
                    n = ast.Subscript(value=v, slice=ast.Slice(lower=ast.Constant(lo), upper=ast.Constant(hi) if hi is not None else None,
                                                               step=None), ctx=ast.Load())
                    n._const = True
                    return n
                return ast.Subscript(value=v, slice=ast.Slice(lower=self.norm(sl.lower, depth - 1), upper=self.norm(sl.upper, depth - 1),
                                                              step=self.norm(sl.step, depth - 1)), ctx=ast.Load())
            return ast.Subscript(value=v, slice=self.norm(sl, depth - 1), ctx=ast.Load())
        if isinstance(e, ast.Call):
            if dotted(e.func) == "getattr" and len(e.args) in (2, 3) and not e.keywords and isinstance(e.args[1], ast.Constant) \
                    and isinstance(e.args[1].value, str):
                obj = self.norm(e.args[0], depth - 1)
                name = e.args[1].value
                rec = self.record(obj)
                known = rec is not None and name in rec[1]
                if not known:
                    ts = [t for t in self.types(obj) if t in self.P.classes]
                    known = bool(ts) and all(name in self.all_fields(self.P.classes[t]) for t in ts)
                if known:
                    return self.norm(ast.Attribute(value=obj, attr=name, ctx=ast.Load()), depth - 1)
            f = e.func
            if isinstance(f, ast.Attribute):
                f = ast.Attribute(value=self.norm(f.value, depth - 1), attr=f.attr, ctx=ast.Load())
            n = ast.Call(func=f, args=[self.norm(a, depth - 1) for a in e.args],
                         keywords=[ast.keyword(arg=k.arg, value=self.norm(k.value, depth - 1)) for k in e.keywords])
            return n
        if isinstance(e, (ast.BinOp, ast.BoolOp, ast.Compare, ast.IfExp, ast.Tuple, ast.List, ast.UnaryOp, ast.Starred)):
            n = copy.copy(e)
            for fld, val in ast.iter_fields(e):
                if isinstance(val, ast.expr):
                    setattr(n, fld, self.norm(val, depth - 1))
                elif isinstance(val, list) and val and isinstance(val[0], ast.expr):
                    setattr(n, fld, [self.norm(x, depth - 1) for x in val])
            return n
        return e

    def cx(self, e) -> str:
        if isinstance(e, str):
            e = ast.parse(e, mode="eval").body
        return sem.cx(self.norm(e))

    def same(self, a, b) -> bool:
        return self.cx(a) == self.cx(b)

    def cslice(self, e: ast.AST):
        """(canonical base, start, stop) of a normalised byte-string expression."""
        n = self.norm(e)
        if isinstance(n, ast.Subscript) and getattr(n, "_const", False):
            return sem.cx(n.value), n.slice.lower.value, (n.slice.upper.value if n.slice.upper is not None else None)
        return sem.cx(n), 0, None


def resolved(e: ast.AST) -> bool:
    """No version token left: every local was replaced by an expression over parameters / attributes."""
    return not any(isinstance(n, ast.Name) and "@" in n.id for n in ast.walk(e))


def is_default(e: ast.AST) -> bool:
    return bool(getattr(e, "_default", False))


def bind_params(callee: FuncInfo, call: ast.Call) -> dict:
    params = callee.params
    off = 1 if callee.kind in ("method", "classmethod") and params else 0
    out = {}
    for i, a in enumerate(call.args):
        if i + off < len(params):
            out[params[i + off]] = a
    for kw in call.keywords:
        if kw.arg:
            out[kw.arg] = kw.value
    return out


def eq_atom(a: ast.AST, b: ast.AST) -> str:
    return sem.atoms(ast.Compare(left=a, ops=[ast.Eq()], comparators=[b]), True)[0]


def attr_chain(base: ast.AST, *names) -> ast.AST:
    for n in names:
        base = ast.Attribute(value=base, attr=n, ctx=ast.Load())
    return base


def src(s: str) -> ast.AST:
    return ast.parse(s, mode="eval").body


def calls_to(P, fi: FuncInfo, target: FuncInfo) -> list:
    return [c for c in P.calls_in(fi) if any(t is target for t in P.call_targets(fi, c, count=False))]


# ---------------------------------------------------------------------------------------------------------------
# framing and indication provenance
# ---------------------------------------------------------------------------------------------------------------
def dispatch_pins(ctx, pch: FuncInfo, h) -> dict:
    """Header type / sub-type established by the common-header dispatcher at the call of handler h:
    {'ht': enum node, 'hst': enum node} (absent when not pinned on every call)."""
    P = ctx.prog
    flp = ctx.flows.get(pch)
    chp = [p for p, ts in P.param_types(h.fi).items() if any(isinstance(t, str) and t.endswith(".CommonHeader") for t in ts)]
    out = None
    for c in calls_to(P, pch, h.fi):
        b = bind_params(h.fi, c)
        pins = {}
        if chp and chp[0] in b:
            st = flp.state_at(c)
            xarg = flp.expand(b[chp[0]], st)
            for f in st.facts:
                if f.kind != "cond" or not f.pol or not isinstance(f.xnode, ast.Compare) or len(f.xnode.ops) != 1 \
                        or not isinstance(f.xnode.ops[0], ast.Eq):
                    continue
                for x, y in ((f.xnode.left, f.xnode.comparators[0]), (f.xnode.comparators[0], f.xnode.left)):
                    for fld in ("ht", "hst"):
                        if sem.cx(x) == sem.cx(attr_chain(xarg, fld)):
                            v = P.try_fold(pch.module, y)
                            if isinstance(v, tuple) and v and v[0] == "enum":
                                pins[fld] = v
        out = pins if out is None else {k: v for k, v in out.items() if pins.get(k) == v}
    return out or {}


def frames(ctx):
    P = ctx.prog
    # ---- GN dispatcher: basic 4, common 8: header decoded from packet[0:N], every later stage receives packet[N:]
    router = P.cls(ROUTER)
    for fname, cls in (("process_basic_header", "geonet.basic_header.BasicHeader"),
                       ("process_common_header", "geonet.common_header.CommonHeader")):
        fi = P.func(f"{ROUTER}.{fname}")
        fl = ctx.flows.get(fi)
        sym = Sym(ctx, fi)
        want = codec_len(ctx, cls)
        ci = P.cls(cls)
        decs = [c for c in P.calls_in(fi) if any(isinstance(t, FuncInfo) and t.cls is ci and t.name.startswith("decode")
                                                 for t in P.call_targets(fi, c, count=False))]
        if len(decs) != 1 or not fi.params[1:]:
            raise AnalysisError(f"C01: {fname}: {len(decs)} {ci.name} decode calls (confirmed: 1)")
        pk = fi.params[1]
        got = sym.cslice(fl.expand(decs[0].args[0], fl.state_at(decs[0]))) if decs[0].args else None
        ctx.ob("C01.frame", fi.short(), "strip:header", got == (pk, 0, want),
               f"{fname} decodes {ci.name} from `{show(decs[0].args[0]) if decs[0].args else ''}` = {got}; the codec is {want} octets "
               f"(`{pk}[0:{want}]`)", f"{fi.module.rel}:{decs[0].lineno}")
        n_next = 0
        for c in P.calls_in(fi):
            tg = [t for t in P.call_targets(fi, c, count=False) if isinstance(t, FuncInfo) and t.cls is router]
            if not tg or not c.args:
                continue
            st = fl.state_at(c)
            for alt in fl.alternatives(c.args[0], st):
                base, lo, hi = sym.cslice(alt)
                if base != pk:
                    continue
                n_next += 1
                ctx.ob("C01.frame", fi.short(), f"strip:residual:{tg[0].name}", (lo, hi) == (want, None),
                       f"{tg[0].name} receives `{show(sym.norm(alt))}`; the next stage starts after the {want}-octet {ci.name} "
                       f"(`{pk}[{want}:]`)", f"{fi.module.rel}:{c.lineno}")
        if n_next == 0:
            ctx.ob("C01.frame", fi.short(), "strip:residual", False, f"{fname} hands no residual of `{pk}` to a next stage", fi.loc)
    # ---- extended headers
    pch = P.func(f"{ROUTER}.process_common_header")
    for h in G.receive_handlers(ctx):
        fl = ctx.flows.get(h.fi)
        sym = Sym(ctx, h.fi)
        cls = h.ext_cls
        key = [k for k in S.CODECS if k.endswith("." + cls.name)]
        want = codec_len(ctx, key[0])
        pk = h.fi.params[1] if len(h.fi.params) > 1 else "?"
        xdec = fl.expand(h.decode_call, fl.state_at(h.decode_call))
        got = sym.cslice(xdec.args[0]) if xdec.args else None
        ctx.ob("C01.frame", h.fi.short(), "header-slice", got == (pk, 0, want),
               f"{cls.name} is {want} octets; handler decodes `{show(h.decode_call.args[0]) if h.decode_call.args else ''}` = {got}",
               f"{h.fi.module.rel}:{h.decode_call.lineno}")
        pins = None
        chp = [p for p, ts in P.param_types(h.fi).items() if any(isinstance(t, str) and t.endswith(".CommonHeader") for t in ts)]
        # residual payload used by the sinks
        for s in G.sinks_of(ctx, h):
            if s.kind != "deliver" or s.fi is not h.fi:
                continue
            st = fl.state_at(s.node)
            loc = f"{h.fi.module.rel}:{s.node.lineno}"
            rec = sym.record(fl.expand(s.node, st))
            if rec is None:
                raise AnalysisError(f"C01: indication construction at {loc} is not a plain keyword/positional construction")
            flds = rec[1]
            extra = SHB_MEDIA_OCTETS if cls.name == "LongPositionVector" else 0
            data = sym.cslice(flds["data"])
            ctx.ob("C01.ind-fwd", h.fi.short(), "data", data == (pk, want + extra, None),
                   f"indication data = `{show(sym.norm(flds['data']))}`; payload starts after the {want}-octet extended header" +
                   (f" and the {extra} media-dependent octets" if extra else "") + f" (`{pk}[{want + extra}:]`)", loc)
            ln = sym.norm(flds["length"])
            ok_len = isinstance(ln, ast.Call) and dotted(ln.func) == "len" and len(ln.args) == 1 and not ln.keywords \
                and sym.cslice(ln.args[0]) == (pk, want + extra, None)
            ctx.ob("C01.ind-fwd", h.fi.short(), "length", ok_len, f"length = `{show(ln)}`; must be the length of the delivered payload", loc)
            want_pv = xdec if cls.name == "LongPositionVector" else attr_chain(xdec, "so_pv")
            ctx.ob("C01.ind-fwd", h.fi.short(), "source-pv", sym.same(flds["source_position_vector"], want_pv),
                   f"source_position_vector = `{show(sym.norm(flds['source_position_vector']))[:70]}`; must be the packet's SO PV", loc)
            for k, w in (("upper_protocol_entity", "nh"), ("traffic_class", "tc")):
                okf = bool(chp) and sym.same(flds[k], attr_chain(ast.Name(id=chp[0], ctx=ast.Load()), w)) and resolved(sym.norm(flds[k]))
                ctx.ob("C01.ind-fwd", h.fi.short(), k, okf,
                       f"{k} = `{show(sym.norm(flds[k]))}` (must be the received common header's {w})", loc)
            if pins is None:
                pins = dispatch_pins(ctx, pch, h)
            ptt = sym.record(sym.norm(flds["packet_transport_type"]))
            if "ht" in pins:
                ht = ptt[1].get("header_type") if ptt else None
                hst = ptt[1].get("header_subtype") if ptt else None
                from_pkt = lambda e, w: bool(chp) and e is not None and sym.same(e, attr_chain(ast.Name(id=chp[0], ctx=ast.Load()), w))
                ok_ht = ht is not None and (P.try_fold(h.fi.module, ht) == pins["ht"] or from_pkt(ht, "ht"))
                if "hst" in pins:
                    ok_hst = hst is not None and (P.try_fold(h.fi.module, hst) == pins["hst"] or from_pkt(hst, "hst"))
                else:
                    ok_hst = hst is not None and (is_default(sym.norm(hst)) or from_pkt(hst, "hst"))
                ctx.ob("C01.ind-fwd", h.fi.short(), "transport-type", ok_ht and ok_hst,
                       f"packet_transport_type = `{show(sym.norm(flds['packet_transport_type']))[:110]}`; the dispatcher calls this handler "
                       f"for {pins['ht'][2]}" + (f"/{pins['hst'][2]}" if "hst" in pins else "") +
                       " (sub-type: that constant, the received one, or unset when the dispatcher does not select on it)", loc)
    # ---- SHB media-dependent octets: same count on both sides
    shb = P.func(f"{ROUTER}.gn_data_request_shb")
    fl = ctx.flows.get(shb)
    sym = Sym(ctx, shb)
    n_md = 0
    for n in ast.walk(shb.node):
        if not (isinstance(n, ast.Assign) and isinstance(n.value, ast.BinOp) and isinstance(n.value.op, ast.Add)):
            continue
        ops = G.concat_operands(fl.expand(n.value, fl.state_at(n)))
        i_pv = [i for i, o in enumerate(ops) if isinstance(o, ast.Call) and any(
            isinstance(t, FuncInfo) and t.cls is not None and t.cls.name == "LongPositionVector" and t.name == "encode"
            for t in sym.targets(o))]
        i_data = [i for i, o in enumerate(ops) if shb.params[1:] and sym.same(o, attr_chain(ast.Name(id=shb.params[1], ctx=ast.Load()), "data"))]
        if len(i_pv) != 1 or len(i_data) != 1 or i_data[0] < i_pv[0]:
            continue
        n_md += 1
        md = [P.try_fold(shb.module, o) for o in ops[i_pv[0] + 1:i_data[0]]]
        mdl = sum(len(x) for x in md) if all(isinstance(x, bytes) for x in md) else -1
        ctx.ob("C01.frame", shb.short(), f"media-dependent#{n_md}", mdl == SHB_MEDIA_OCTETS,
               f"SHB originator puts {mdl if mdl >= 0 else 'a non-constant number of'} media-dependent octets between the SO PV and "
               f"the payload; the receiver skips {SHB_MEDIA_OCTETS}", f"{shb.module.rel}:{n.lineno}")
    if n_md == 0:
        raise AnalysisError("C01: no `... + <SO PV>.encode() + ... + request.data` assembly found in gn_data_request_shb")
    # ---- BTP: 4-octet header on both sides
    hlens = {}
    for hn in ("BTPAHeader", "BTPBHeader"):
        tot, _ = writer_table(P, P.cls(f"btp.btp_header.{hn}").methods["encode"])
        hlens[hn] = tot
        ctx.ob("C01.frame", f"btp.btp_header.{hn}.encode", "length", tot == 32, f"{hn} is {tot} bits on the wire", "")
    bi = P.func("btp.service_access_point.BTPDataIndication.initialize_with_gn_data_indication")
    fl = ctx.flows.get(bi)
    sym = Sym(ctx, bi)
    gn = bi.params[1]
    gnd = sem.cx(src(f"{gn}.data"))
    hoct = (hlens["BTPAHeader"] or 0) // 8
    for k, s, st in fl.exits:
        if k == "return":
            loc = f"{bi.module.rel}:{s.lineno}"
            rec = sym.record(fl.expand(s.value, st)) if s.value is not None else None
            if rec is None:
                raise AnalysisError(f"C01: {bi.short()} does not return a plain construction at {loc}")
            flds = rec[1]
            d = sym.cslice(flds["data"])
            ctx.ob("C01.frame", bi.short(), "btp-strip", d == (gnd, hoct, None) and hlens["BTPAHeader"] == hlens["BTPBHeader"],
                   f"BTP payload = `{show(sym.norm(flds['data']))}` (BTP header is {hoct} octets)", loc)
            ln = sym.norm(flds["length"])
            ok_len = isinstance(ln, ast.Call) and dotted(ln.func) == "len" and len(ln.args) == 1 and sym.cslice(ln.args[0]) == (gnd, hoct, None)
            ctx.ob("C01.ind-fwd", bi.short(), "btp-length", ok_len, f"length = `{show(ln)}`", loc)
            for k2, w in (("gn_packet_transport_type", "packet_transport_type"),
                          ("gn_source_position_vector", "source_position_vector"),
                          ("gn_traffic_class", "traffic_class")):
                v2 = sym.norm(flds[k2])
                ctx.ob("C01.ind-fwd", bi.short(), k2, sym.same(v2, f"{gn}.{w}") and not is_default(v2),
                       f"{k2} = `{show(v2)}`" + (" (left at its default)" if is_default(v2) else ""), loc)
    ctx.floor("C01.frame", 25)
    ctx.floor("C01.ind-fwd", 34)


# ---------------------------------------------------------------------------------------------------------------
# BTP demultiplexing
# ---------------------------------------------------------------------------------------------------------------
def nh_dispatch(ctx) -> dict:
    """parser qual -> CommonNH member name established by btp_data_indication at its call."""
    P = ctx.prog
    r = P.cls(BTPR)
    bd = P.func(f"{BTPR}.btp_data_indication")
    fl = ctx.flows.get(bd)
    gn = bd.params[1]
    out = {}
    seen = set()
    for c in P.calls_in(bd):
        tg = [t for t in P.call_targets(bd, c, count=False) if isinstance(t, FuncInfo) and t.cls is r]
        if not tg:
            continue
        fs = sem.facts(fl, c)
        nhs = [m for m in BTP_HEADER_OF_NH if sem.holds(fs, f"{gn}.upper_protocol_entity == CommonNH.{m}")]
        arg_ok = len(c.args) == 1 and isinstance(c.args[0], ast.Name) and c.args[0].id == gn and \
            unparse(fl.expand(c.args[0], fl.state_at(c))) == gn
        ok = len(nhs) == 1 and arg_ok
        ctx.ob("C01.demux", bd.short(), f"nh-dispatch:{tg[0].name}", ok,
               f"{tg[0].name} is invoked with the received indication under `upper_protocol_entity == CommonNH.<X>` for exactly one "
               f"BTP type X (established: {nhs or 'none'})", f"{bd.module.rel}:{c.lineno}")
        if ok:
            for t in tg:
                out[t.qual] = nhs[0]
            seen.add(nhs[0])
    ctx.ob("C01.demux", bd.short(), "nh-dispatch:both", seen == set(BTP_HEADER_OF_NH),
           f"BTP-A and BTP-B indications are both dispatched (dispatched: {sorted(seen)})", bd.loc)
    _no_silent_drop(ctx, [bd] + [P.funcs[q] for q in out])
    return out


def _no_silent_drop(ctx, funcs: list) -> None:
    """A BTP indication is dropped without a callback only for a reason the property allows: no handler registered for the
    port, or a GN payload shorter than the 4-octet BTP header.  Any other condition on the way to a `return` (e.g. a guard
    on the payload LENGTH that also catches complete headers with an empty payload) loses a deliverable payload."""
    P = ctx.prog
    for fi in funcs:
        gn = fi.params[1] if len(fi.params) > 1 else None
        rets = [n for n in ast.walk(fi.node) if isinstance(n, ast.Return)]
        bad = []
        for r in rets:
            for pc in sem.path_conditions(fi.node, r, kill_rebound=False):
                for a in pc:
                    if "upper_protocol_entity" in a or "indication_callbacks" in a or "callback" in a:
                        continue            # NH dispatch / registry state / handler lookup
                    m = re.fullmatch(r"(gt|ge)\((.+),len\((.+)\)\)", a)
                    if m and m.group(3).endswith(".data") or (m and gn and gn in m.group(3)):
                        try:
                            bound = int(m.group(2))
                        except ValueError:
                            bound = None
                        # gt(N, len) : len < N ; ge(N, len) : len <= N   -> must imply len < 4
                        if bound is not None and ((m.group(1) == "gt" and bound <= 4) or (m.group(1) == "ge" and bound <= 3)):
                            continue
                    bad.append((r.lineno, a))
        ctx.ob("C01.demux", fi.short(), "drops-only-undeliverable", not bad,
               "an indication is dropped without calling a handler only when no handler is registered or the BTP header is incomplete" if not bad else
               f"an indication can be dropped silently under {sorted(set(x for _, x in bad))[:3]} (return at line {bad[0][0]}): a deliverable payload "
               "(e.g. an empty payload behind a complete BTP header) is lost", fi.loc)


def demux(ctx):
    P = ctx.prog
    r = P.cls(BTPR)
    parsers = nh_dispatch(ctx)
    ind_cls = P.cls("btp.service_access_point.BTPDataIndication")
    gn_cls = P.cls("geonet.service_access_point.GNDataIndication")
    n = 0
    for m in r.methods.values():
        fl = ctx.flows.get(m)
        sym = Sym(ctx, m)
        gets = []
        for c in P.calls_in(m):
            if isinstance(c.func, ast.Attribute) and c.func.attr == "get" and dotted(c.func.value) == "self.indication_callbacks" and c.args:
                gets.append((c, c.args[0]))
        for node in ast.walk(m.node):
            if isinstance(node, ast.Subscript) and isinstance(node.ctx, ast.Load) and dotted(node.value) == "self.indication_callbacks":
                gets.append((node, node.slice))
        if not gets:
            continue
        gn = m.params[1] if len(m.params) > 1 else "?"
        nh = parsers.get(m.qual)
        hdr_cls = P.cls(f"btp.btp_header.{BTP_HEADER_OF_NH[nh]}") if nh else None
        hoct = (writer_table(P, hdr_cls.methods["encode"])[0] or 0) // 8 if hdr_cls else None

        def decoded_header(e) -> bool:
            """e is <header class of this BTP type>.decode(<the whole GN payload>)."""
            if not (isinstance(e, ast.Call) and hdr_cls is not None and len(e.args) == 1 and not e.keywords):
                return False
            tg = sym.targets(e)
            return len(tg) == 1 and isinstance(tg[0], FuncInfo) and tg[0].cls is hdr_cls and tg[0].name == "decode" and \
                sym.cslice(e.args[0]) == (sem.cx(src(f"{gn}.data")), 0, None)

        def hdr_field(e, field) -> bool:
            e = sym.norm(e)
            return isinstance(e, ast.Attribute) and e.attr == field and decoded_header(e.value)

        for c, keyx in gets:
            n += 1
            st = fl.state_at(c)
            k = sym.norm(fl.expand(keyx, st))
            ctx.ob("C01.demux", m.short(), f"lookup#{n}", hdr_field(k, "destination_port"),
                   f"handler is looked up by `{show(k)[-110:]}`; must be the DESTINATION port decoded from this packet's "
                   f"{hdr_cls.name if hdr_cls else 'BTP header (type not established by the dispatcher)'}",
                   f"{m.module.rel}:{c.lineno}")
        # the indication handed to the looked-up callback: every field, on both paths
        for c in P.calls_in(m):
            st = fl.state_at(c)
            fx = fl.expand(c.func, st)
            is_cb = (isinstance(fx, ast.Call) and isinstance(fx.func, ast.Attribute) and fx.func.attr == "get"
                     and dotted(fx.func.value) == "self.indication_callbacks") or \
                    (isinstance(fx, ast.Subscript) and dotted(fx.value) == "self.indication_callbacks")
            if not is_cb:
                continue
            loc = f"{m.module.rel}:{c.lineno}"
            rec = sym.record(sym.norm(fl.expand(c.args[0], st))) if len(c.args) == 1 and not c.keywords else None
            if rec is None or rec[0] is not ind_cls:
                ctx.ob("C01.demux", m.short(), "callback-arg", False,
                       f"callback argument `{show(c.args[0]) if c.args else ''}` is not a BTPDataIndication whose fields can be followed "
                       "to the received GN indication", loc)
                continue
            flds = rec[1]
            port_src = {"destination_port": "destination_port",
                        "source_port": "source_port" if nh == "BTP_A" else None,
                        "destination_port_info": "destination_port_info" if nh == "BTP_B" else None}
            for f, hf in port_src.items():
                v = sym.norm(flds[f])
                if hf is not None:
                    ok = hdr_field(v, hf)
                    txt = f"must be {hdr_cls.name if hdr_cls else 'the BTP header'}.decode({gn}.data).{hf}"
                else:
                    ok = nh is not None and (is_default(v) or (isinstance(v, ast.Constant) and v.value == 0))
                    txt = f"BTP-{(nh or '?')[-1]} has no such field: must stay 0"
                ctx.ob("C01.demux", m.short(), f"callback-arg:{f}", ok, f"{f} = `{show(v)[:90]}`; {txt}", loc)
            pay = (sem.cx(src(f"{gn}.data")), hoct, None)
            ctx.ob("C01.demux", m.short(), "callback-arg:data", hoct is not None and sym.cslice(flds["data"]) == pay,
                   f"data = `{show(sym.norm(flds['data']))[:90]}`; must be the GN payload after the {hoct}-octet BTP header", loc)
            ln = sym.norm(flds["length"])
            ctx.ob("C01.demux", m.short(), "callback-arg:length",
                   hoct is not None and isinstance(ln, ast.Call) and dotted(ln.func) == "len" and len(ln.args) == 1 and sym.cslice(ln.args[0]) == pay,
                   f"length = `{show(ln)[:90]}`; must be the length of that payload", loc)
            for f in sym.all_fields(ind_cls):
                if f in port_src or f in ("data", "length"):
                    continue
                gf = f[3:] if f.startswith("gn_") else f
                v = sym.norm(flds[f])
                from_gn = gf in sym.all_fields(gn_cls) and sym.same(v, f"{gn}.{gf}") and not is_default(v)
                must = f in ("gn_packet_transport_type", "gn_source_position_vector", "gn_traffic_class")
                ctx.ob("C01.demux", m.short(), f"callback-arg:{f}", from_gn or (is_default(v) and not must),
                       f"{f} = `{show(v)[:90]}`" + (" (left at its default)" if is_default(v) else "") +
                       (f"; must be {gn}.{gf}" if must else f"; may only be {gn}.{gf} or unset"), loc)
    ctx.floor("C01.demux", 31)


# ---------------------------------------------------------------------------------------------------------------
# request forwarding BTP -> GN
# ---------------------------------------------------------------------------------------------------------------
REQ_FWD = {   # GNDataRequest keyword <- BTPDataRequest attribute
    "upper_protocol_entity": "btp_type", "packet_transport_type": "gn_packet_transport_type", "area": "gn_area",
    "communication_profile": "communication_profile", "traffic_class": "traffic_class", "security_profile": "security_profile",
    "its_aid": "its_aid", "security_permissions": "security_permissions", "max_hop_limit": "gn_max_hop_limit",
    "max_packet_lifetime": "gn_max_packet_lifetime", "destination": "gn_destination_address",
}
HDR_FIELDS = {"BTP_A": {"destination_port": "destination_port", "source_port": "source_port"},
              "BTP_B": {"destination_port": "destination_port", "destination_port_info": "destination_port_info"}}


def req_fwd(ctx):
    P = ctx.prog
    fi = P.func(f"{BTPR}.btp_data_request")
    fl = ctx.flows.get(fi)
    sym = Sym(ctx, fi)
    rq = fi.params[1]
    gnreq = P.func(f"{ROUTER}.gn_data_request")
    handed = [sem.cx(fl.expand(c.args[0], fl.state_at(c))) for c in calls_to(P, fi, gnreq) if len(c.args) == 1]
    n = n_handed = 0
    for c in P.calls_in(fi):
        tg = [t for t in P.call_targets(fi, c, count=False) if isinstance(t, ClassInfo) and t.name == "GNDataRequest"]
        if not tg:
            continue
        n += 1
        st = fl.state_at(c)
        loc = f"{fi.module.rel}:{c.lineno}"
        fs = sem.facts(fl, c)
        brs = [m for m in BTP_HEADER_OF_NH if sem.holds(fs, f"{rq}.btp_type == CommonNH.{m}")]
        branch = brs[0] if len(brs) == 1 else f"?{n}"
        rec = sym.record(fl.expand(c, st))
        if rec is None:
            raise AnalysisError(f"C01: GNDataRequest construction at {loc} cannot be followed")
        flds = rec[1]
        if len(brs) != 1:
            ctx.ob("C01.req-fwd", fi.short(), f"{branch}:btp-type", False,
                   "a GNDataRequest is built on a path where the BTP type of the request is not established (exactly one of "
                   f"`{rq}.btp_type == CommonNH.BTP_A / BTP_B` must hold; found {brs})", loc)
            continue
        for k, a in REQ_FWD.items():
            if is_default(sym.norm(flds[k])):
                ctx.ob("C01.req-fwd", fi.short(), f"{branch}:{k}", False,
                       f"GNDataRequest is built without `{k}`: BTPDataRequest.{a} never reaches the GeoNetworking layer" +
                       (" (every GeoUnicast issued through BTP has no destination)" if k == "destination" else ""), loc)
                continue
            v = sym.norm(flds[k])
            ctx.ob("C01.req-fwd", fi.short(), f"{branch}:{k}", sym.same(v, f"{rq}.{a}") and resolved(v),
                   f"{k} = `{show(v)}` (must be {rq}.{a})", loc)
        d = sym.norm(flds["data"])
        ops = G.concat_operands(d)
        ok = len(ops) == 2 and sym.same(ops[1], f"{rq}.data") and resolved(ops[1])
        hdr = None
        if ok:
            e = ops[0]
            ok = isinstance(e, ast.Call) and isinstance(e.func, ast.Attribute) and e.func.attr == "encode" and not e.args and not e.keywords
            hdr = sym.record(e.func.value) if ok else None
            ok = hdr is not None and hdr[0].qual.endswith("btp.btp_header." + BTP_HEADER_OF_NH[branch]) and \
                all(sym.same(hdr[1][hf], f"{rq}.{rf}") and not is_default(sym.norm(hdr[1][hf])) for hf, rf in HDR_FIELDS[branch].items()) and \
                set(hdr[1]) == set(HDR_FIELDS[branch])
        ctx.ob("C01.req-fwd", fi.short(), f"{branch}:data", ok,
               f"GN payload = `{show(d)[:140]}`; must be {BTP_HEADER_OF_NH[branch]}(<the request's ports>).encode() + {rq}.data", loc)
        ln = sym.norm(flds["length"])
        ctx.ob("C01.req-fwd", fi.short(), f"{branch}:length",
               isinstance(ln, ast.Call) and dotted(ln.func) == "len" and len(ln.args) == 1 and sem.cx(ln.args[0]) == sem.cx(d),
               f"length = `{show(ln)[:90]}`; must be the length of the GN payload (BTP header + data)", loc)
        if sem.cx(fl.expand(c, st)) in handed:
            n_handed += 1
    if n != 2:
        raise AnalysisError(f"C01: {n} GNDataRequest constructions in btp_data_request (confirmed: 2)")
    ctx.ob("C01.req-fwd", fi.short(), "handed-down", n_handed == n, f"{n_handed} of {n} built requests are handed to GNRouter.gn_data_request", fi.loc)
    ctx.floor("C01.req-fwd", 27)


# ---------------------------------------------------------------------------------------------------------------
# delivery guards
# ---------------------------------------------------------------------------------------------------------------
def not_none_guard(fl, st, arg: ast.AST) -> bool:
    """A must-fact at `st` says that `arg` (same version of the local) is not None / truthy."""
    xa = fl.expand(arg, st)
    w = {sem.atoms(ast.Compare(left=xa, ops=[ast.IsNot()], comparators=[ast.Constant(None)]), True)[0], sem.atoms(xa, True)[0]}
    tok = unparse(xa)
    for f in st.facts:
        if f.kind == "cond" and tok in f.xkey and w & set(sem.atoms(f.xnode, f.pol)):
            return True
    return False


def addressee(ctx):
    P = ctx.prog
    handlers = G.receive_handlers(ctx)
    h = [x for x in handlers if x.ext_cls is not None and x.ext_cls.name == "GUCExtendedHeader"]
    if len(h) != 1:
        raise AnalysisError(f"C01: {len(h)} GeoUnicast receive handlers (confirmed: 1)")
    h = h[0]
    fl = ctx.flows.get(h.fi)
    xdec = fl.expand(h.decode_call, fl.state_at(h.decode_call))
    mine = eq_atom(attr_chain(xdec, "de_pv", "gn_addr"), src("self.mib.itsGnLocalGnAddr"))
    for s in G.sinks_of(ctx, h):
        if s.kind == "deliver":
            ctx.ob("C01.addressee", h.fi.short(), "unicast-for-me", mine in sem.facts(fl, s.node),
                   "GeoUnicast payload is delivered only when the packet's DE address is the own GN address",
                   f"{h.fi.module.rel}:{s.node.lineno}")
        if s.kind == "send":
            ctx.ob("C01.addressee", h.fi.short(), "forward-not-mine", ("!" + mine) in sem.facts(fl, s.node),
                   "GeoUnicast is forwarded only when addressed to another station", f"{h.fi.module.rel}:{s.node.lineno}")
    pch = P.func(f"{ROUTER}.process_common_header")
    fl = ctx.flows.get(pch)
    ups = [c for c in P.calls_in(pch) if dotted(c.func) == "self.indication_callback"]
    hq = {x.fi.qual for x in handlers}
    for c in ups:
        st = fl.state_at(c)
        arg = c.args[0] if len(c.args) == 1 else ast.Constant(None)
        ctx.ob("C01.addressee", pch.short(), "upcall-only-with-indication", not_none_guard(fl, st, arg),
               f"upper layer is called only with a real indication (`{show(arg)}` not None)", f"{pch.module.rel}:{c.lineno}")
        bad, good = [], 0
        for a in fl.alternatives(arg, st):
            tg = P.call_targets(pch, a, count=False) if isinstance(a, ast.Call) else []
            if tg and all(isinstance(t, FuncInfo) and t.qual in hq for t in tg):
                good += 1
            elif tg and all(isinstance(t, ClassInfo) and t.name == "GNDataIndication" for t in tg) and not a.args and not a.keywords:
                pass
            else:
                bad.append(show(a)[:40])
        ctx.ob("C01.addressee", pch.short(), "upcall-source", not bad and good > 0,
               f"the indication handed up is a receive handler's return value ({good} handler results" +
               (f"; other sources: {bad}" if bad else "") + ")", f"{pch.module.rel}:{c.lineno}")
    if len(ups) != 1:
        raise AnalysisError(f"C01: {len(ups)} upper-layer call sites in process_common_header (confirmed: 1)")
    ctx.floor("C01.addressee", 4)


# ---------------------------------------------------------------------------------------------------------------
# location service
# ---------------------------------------------------------------------------------------------------------------
def strip_none_alt(e: ast.AST) -> ast.AST:
    """`X if c else None` / `None if c else X` -> X (the lookup itself)."""
    while isinstance(e, ast.IfExp):
        if isinstance(e.orelse, ast.Constant) and e.orelse.value is None:
            e = e.body
        elif isinstance(e.body, ast.Constant) and e.body.value is None:
            e = e.orelse
        else:
            break
    return e


def is_locte_lookup(P, fi, e: ast.AST, key_cx: str) -> bool:
    """e is LocationTable.get_entry(<key>)"""
    e = strip_none_alt(e)
    if not (isinstance(e, ast.Call) and len(e.args) == 1 and not e.keywords and sem.cx(e.args[0]) == key_cx):
        return False
    return any(isinstance(t, FuncInfo) and t.cls is not None and t.cls.name == "LocationTable" and t.name == "get_entry"
               for t in P.call_targets(fi, e, count=False))


def mentions_locte_state(P, fi, node: ast.AST) -> bool:
    for n in ast.walk(node):
        if isinstance(n, ast.Attribute) and n.attr == "ls_pending":
            return True
        if isinstance(n, ast.Call) and isinstance(n.func, ast.Attribute) and n.func.attr == "get_entry" and \
                any(isinstance(t, FuncInfo) and t.cls is not None and t.cls.name == "LocationTable" for t in P.call_targets(fi, n, count=False)):
            return True
    return False


def branch_atoms(fl, node: ast.AST) -> set:
    """Canonical atoms of the tests of every enclosing `if` as they evaluated when the branch containing `node` was
    entered (locals expanded at the test).  Unlike must-facts these are not killed by later mutations: they describe
    the values READ by the test."""
    out = set()
    cur = node
    while cur is not None:
        par = fl.parent.get(id(cur))
        if isinstance(par, ast.If) and cur is not par.test:
            pol = any(cur is b for b in par.body)
            if pol or any(cur is b for b in par.orelse):
                out |= set(sem.atoms(fl.expand(par.test, fl.state_at(par)), pol))
        cur = par
    return out


def dict_op(e: ast.AST, attr: str, meth: str):
    """key expression when e is self.<attr>.<meth>(key, ...) else None"""
    if isinstance(e, ast.Call) and isinstance(e.func, ast.Attribute) and e.func.attr == meth and dotted(e.func.value) == f"self.{attr}" and e.args:
        return e.args[0]
    return None


def location_service(ctx):
    P = ctx.prog
    guc = P.func(f"{ROUTER}.gn_data_request_guc")
    fl = ctx.flows.get(guc)
    rq = guc.params[1]
    dest = sem.cx(src(f"{rq}.destination"))
    for c in P.calls_in(guc):
        if G.is_ll_send(P, guc, c):
            st = fl.state_at(c)
            known = pend_entry = False
            for f in st.facts:
                if f.kind != "cond":
                    continue
                x = f.xnode
                if isinstance(x, ast.Compare) and len(x.ops) == 1 and isinstance(x.ops[0], ast.Is) and not f.pol and \
                        isinstance(x.comparators[0], ast.Constant) and x.comparators[0].value is None and is_locte_lookup(P, guc, x.left, dest):
                    known = True
                if isinstance(x, ast.Attribute) and x.attr == "ls_pending" and not f.pol and is_locte_lookup(P, guc, x.value, dest):
                    pend_entry = True
            fs = sem.facts_of_state(st)
            not_pending = pend_entry or sem.holds(fs, f"{rq}.destination in self._ls_packet_buffers", False)
            ctx.ob("C01.ls", guc.short(), "send-needs-known-destination", known,
                   "a GeoUnicast is sent only when a LocTE of the destination exists", f"{guc.module.rel}:{c.lineno}")
            ctx.ob("C01.ls", guc.short(), "send-not-while-lookup-pending", not_pending,
                   "a GeoUnicast is sent only when no location-service lookup is pending for the destination" if not_pending else
                   "gn_ls_request creates a placeholder LocTE (ls_pending = True, all-zero PV); a second unicast request issued "
                   "while the lookup is pending finds that entry and is SENT AT ONCE with an all-zero DE PV instead of being "
                   "buffered (guard only tests `de_entry is None`)", f"{guc.module.rel}:{c.lineno}")
    # the request that triggers / meets a lookup is stored on both branches of gn_ls_request
    ls = P.func(f"{ROUTER}.gn_ls_request")
    fl = ctx.flows.get(ls)
    addr, breq = ls.params[1], ls.params[2]
    stores = []
    for n in ast.walk(ls.node):
        if isinstance(n, ast.Call) and isinstance(n.func, ast.Attribute) and n.func.attr in ("append", "extend", "insert"):
            r = n.func.value
            key = dict_op(r, "_ls_packet_buffers", "setdefault")
            if key is None and isinstance(r, ast.Subscript) and dotted(r.value) == "self._ls_packet_buffers":
                key = r.slice
            if key is not None:
                stores.append(("append", n, key))
        if isinstance(n, ast.Assign) and len(n.targets) == 1 and isinstance(n.targets[0], ast.Subscript) and \
                dotted(n.targets[0].value) == "self._ls_packet_buffers":
            stores.append(("assign", n, n.targets[0].slice))
    branches = set()
    for how, n, key in stores:
        st = fl.state_at(n)
        loc = f"{ls.module.rel}:{n.lineno}"
        pending = any(f.kind == "cond" and f.pol and isinstance(f.xnode, ast.Attribute) and f.xnode.attr == "ls_pending"
                      and is_locte_lookup(P, ls, f.xnode.value, addr) for f in st.facts)
        key_ok = unparse(fl.expand(key, st)) == addr
        if pending:
            branches.add("pending")
            ok = how == "append" and n.func.attr == "append" and key_ok and len(n.args) == 1 and unparse(fl.expand(n.args[0], st)) == breq
            ctx.ob("C01.ls", ls.short(), "pending:append", ok,
                   "a request meeting a pending lookup is APPENDED to the buffer of that address" if ok else
                   f"a request meeting a pending lookup is stored by `{show(n)[:90]}`: it must be appended to the buffer of `{addr}` "
                   "(an assignment discards the requests already waiting)", loc)
        else:
            branches.add("new")
            ok = how == "assign" and key_ok
            if ok:
                v = n.value
                fs = sem.facts_of_state(st)
                some = sem.holds(fs, f"{breq} is not None") or sem.holds(fs, breq)
                if isinstance(v, ast.IfExp):
                    ta = set(sem.atoms(v.test, True))
                    if ta & {sem.want(f"{breq} is not None")[0], sem.want(breq)[0]}:
                        full, empty = v.body, v.orelse
                    elif ta & {sem.want(f"{breq} is None")[0], sem.want(f"not {breq}")[0]}:
                        full, empty = v.orelse, v.body
                    else:
                        full = empty = None
                    ok = isinstance(full, ast.List) and len(full.elts) == 1 and unparse(fl.expand(full.elts[0], st)) == breq and \
                        isinstance(empty, ast.List) and not empty.elts
                else:
                    ok = some and isinstance(v, ast.List) and len(v.elts) == 1 and unparse(fl.expand(v.elts[0], st)) == breq
            ctx.ob("C01.ls", ls.short(), "new:store", ok,
                   f"a new lookup starts its buffer with the triggering request (`{show(n.value if how == 'assign' else n)[:80]}`)", loc)
    ctx.ob("C01.ls", ls.short(), "request-buffered-on-both-branches", branches == {"pending", "new"},
           f"the triggering request is stored when a lookup is already pending and when a new one starts ({sorted(branches)})", ls.loc)
    # reply handler: pop, flush each through gn_data_request_guc, reset ls_pending, cancel timer - all for the reply's SO
    rph = [x for x in G.receive_handlers(ctx) if x.ext_cls is not None and x.ext_cls.name == "LSReplyExtendedHeader"]
    if len(rph) != 1:
        raise AnalysisError(f"C01: {len(rph)} LS reply handlers (confirmed: 1)")
    rp = rph[0].fi
    fl = ctx.flows.get(rp)
    xdec = fl.expand(rph[0].decode_call, fl.state_at(rph[0].decode_call))
    so = sem.cx(attr_chain(xdec, "so_pv", "gn_addr"))
    mine = eq_atom(attr_chain(xdec, "de_pv", "gn_addr"), src("self.mib.itsGnLocalGnAddr"))

    def key_is_so(k, st) -> bool:
        return k is not None and sem.cx(fl.expand(k, st)) == so

    flush = []
    for n in ast.walk(rp.node):
        if isinstance(n, ast.For) and any(isinstance(b, ast.Expr) and isinstance(b.value, ast.Call) and guc in
                                          P.call_targets(rp, b.value, count=False) for b in ast.walk(n)):
            flush.append(n)
    ok = len(flush) == 1
    why = f"{len(flush)} loop(s) re-issue buffered requests"
    if ok:
        loop = flush[0]
        st = fl.state_at(loop)
        it = fl.expand(loop.iter, st)
        while isinstance(it, ast.Call) and dotted(it.func) in ("list", "tuple") and len(it.args) == 1 and not it.keywords:
            it = it.args[0]        # order-preserving copies
        popped = key_is_so(dict_op(it, "_ls_packet_buffers", "pop"), st)
        body_ok = False
        for i, b in enumerate(loop.body):
            if isinstance(b, ast.Expr) and isinstance(b.value, ast.Call) and guc in P.call_targets(rp, b.value, count=False):
                body_ok = isinstance(loop.target, ast.Name) and len(b.value.args) == 1 and isinstance(b.value.args[0], ast.Name) and \
                    b.value.args[0].id == loop.target.id and not b.value.keywords and \
                    all(isinstance(p_, (ast.Expr, ast.Assign)) for p_ in loop.body[:i]) and not loop.orelse
                break
        ok = popped and body_ok
        why = f"loop iterates `{show(it)[:90]}`" + ("" if popped else " - not the list popped from _ls_packet_buffers under the reply's SO address") + \
            ("" if body_ok else "; the body does not unconditionally pass each element to gn_data_request_guc")
        fs = sem.facts(fl, loop)
        ctx.ob("C01.ls", rp.short(), "flush-only-requester", mine in fs, "buffer is flushed by the station the reply is addressed to", rp.loc)
        unguarded = [pretty(repr(f)) for f in st.facts if f.kind == "cond" and mentions_locte_state(P, rp, f.xnode)]
        ctx.ob("C01.ls", rp.short(), "flush-unconditional", not unguarded,
               "the flush does not depend on the LocTE still carrying ls_pending (the placeholder may have been replaced)" if not unguarded
               else f"the flush is additionally guarded by {unguarded}: a reply arriving after the placeholder was replaced drops the buffer",
               rp.loc)
    ctx.ob("C01.ls", rp.short(), "flush", ok,
           "every buffered request is re-issued, in order, through gn_data_request_guc from the buffer popped for the reply's SO address: " + why,
           rp.loc)
    resets = []
    for n in ast.walk(rp.node):
        if isinstance(n, ast.Assign) and len(n.targets) == 1 and isinstance(n.targets[0], ast.Attribute) and n.targets[0].attr == "ls_pending":
            st = fl.state_at(n)
            base = fl.expand(n.targets[0].value, st)
            resets.append(isinstance(n.value, ast.Constant) and n.value.value is False and is_locte_lookup(P, rp, base, so)
                          and mine in sem.facts_of_state(st))
    ctx.ob("C01.ls", rp.short(), "reset-pending", any(resets) and all(resets),
           "ls_pending of the LocTE of the reply's SO address is reset by the requester on reply", rp.loc)
    cancels = []
    for c in P.calls_in(rp):
        if isinstance(c.func, ast.Attribute) and c.func.attr == "cancel" and not c.args:
            st = fl.state_at(c)
            cancels.append(any(key_is_so(dict_op(a, "_ls_timers", "pop"), st) for a in [fl.expand(c.func.value, st)])
                           and mine in sem.facts_of_state(st))
    ctx.ob("C01.ls", rp.short(), "cancel-timer", any(cancels) and all(cancels),
           "the retransmit timer popped for the reply's SO address is cancelled by the requester on reply", rp.loc)
    # give up after the last retry
    rt = P.func(f"{ROUTER}._ls_retransmit")
    fl = ctx.flows.get(rt)
    addr = rt.params[1]
    gave_up = lambda node: any(sem.holds(branch_atoms(fl, node), f"{cnt} >= self.mib.itsGnLocationServiceMaxRetrans") for cnt in (
        f"self._ls_retransmit_counters.get({addr}, 0)", f"self._ls_retransmit_counters[{addr}]"))
    drops = []
    for c in P.calls_in(rt):
        k = dict_op(c, "_ls_packet_buffers", "pop")
        if k is not None and unparse(fl.expand(k, fl.state_at(c))) == addr and gave_up(c):
            drops.append(c)
    for n in ast.walk(rt.node):
        if isinstance(n, ast.Delete):
            for t in n.targets:
                if isinstance(t, ast.Subscript) and dotted(t.value) == "self._ls_packet_buffers" and \
                        unparse(fl.expand(t.slice, fl.state_at(n))) == addr and gave_up(n):
                    drops.append(n)
    ctx.ob("C01.ls", rt.short(), "give-up:discard-buffer", bool(drops),
           "once the retransmit counter has reached itsGnLocationServiceMaxRetrans the buffer of the sought address is discarded", rt.loc)
    resets = []
    for n in ast.walk(rt.node):
        if isinstance(n, ast.Assign) and len(n.targets) == 1 and isinstance(n.targets[0], ast.Attribute) and n.targets[0].attr == "ls_pending":
            st = fl.state_at(n)
            resets.append(isinstance(n.value, ast.Constant) and n.value.value is False and
                          is_locte_lookup(P, rt, fl.expand(n.targets[0].value, st), addr) and gave_up(n))
    ctx.ob("C01.ls", rt.short(), "give-up:reset-pending", any(resets) and all(resets),
           "once the retransmit counter has reached itsGnLocationServiceMaxRetrans ls_pending of the sought LocTE is reset", rt.loc)
    ctx.floor("C01.ls", 12)


# ---------------------------------------------------------------------------------------------------------------
# security switch at origination
# ---------------------------------------------------------------------------------------------------------------
def sec_switch(ctx):
    """Every origination function treats the security switch the same way (a receiver with security ENABLED drops every
    unsecured packet, so an originator that never secures a packet type cannot reach such receivers).

    Decided per originating link-layer send (a send whose bytes mention a received header parameter is forwarding):
    every reaching definition of the sent bytes, other than a constant initialiser, is made under a must-fact comparing
    mib.itsGnSecurity with GnSecurity.ENABLED; under `== ENABLED` it carries a sign-service result, under `!= ENABLED`
    it does not; both kinds exist."""
    P = ctx.prog
    router = P.cls(ROUTER)
    on = sem.want("self.mib.itsGnSecurity == GnSecurity.ENABLED")[0]
    for name in ("gn_data_request_shb", "gn_data_request_gbc", "gn_data_request_guc", "gn_data_request_beacon",
                 "_send_ls_request_packet", "gn_data_indicate_ls_request"):
        m = router.methods.get(name)
        if m is None:
            raise AnalysisError(f"C01: origination function {name} vanished")
        fl = ctx.flows.get(m)
        signs = any(isinstance(c.func, ast.Attribute) and dotted(c.func.value) == "self.sign_service" for c in P.calls_in(m))
        rx_hdrs = {p for p, ts in P.param_types(m).items()
                   if any(isinstance(t, str) and t.split(".")[-1] in ("BasicHeader", "CommonHeader") for t in ts)}
        verdicts = []
        for c in P.calls_in(m):
            if not G.is_ll_send(P, m, c):
                continue
            st = fl.state_at(c)
            if any(isinstance(n, ast.Name) and n.id in rx_hdrs for alt in fl.alternatives(c.args[0], st) for n in ast.walk(alt)):
                continue          # forwarding of a received packet
            here = sem.facts_of_state(st)
            arg = c.args[0]
            defs = [(d.value, d.stmt) for d in fl.reaching(arg.id, st)] if isinstance(arg, ast.Name) else [(arg, c)]
            n_sec = n_plain = n_bad = 0
            for v, stmt in defs:
                if isinstance(v, ast.Constant):
                    continue      # initialiser
                if v is None or not isinstance(stmt, ast.stmt) and stmt is not c:
                    n_bad += 1
                    continue
                dst = fl.state_at(stmt)
                fs = sem.facts_of_state(dst) | here
                ops = G.concat_operands(fl.expand(v, dst))
                secured = any(isinstance(o, ast.Attribute) and isinstance(o.value, ast.Call) and isinstance(o.value.func, ast.Attribute)
                              and dotted(o.value.func.value) == "self.sign_service" for o in ops)
                if secured and on in fs:
                    n_sec += 1
                elif not secured and ("!" + on) in fs:
                    n_plain += 1
                else:
                    n_bad += 1
            verdicts.append(n_sec > 0 and n_plain > 0 and n_bad == 0)
        consults = bool(verdicts) and all(verdicts)
        ctx.ob("C01.sec-switch", m.short(), "consults-itsGnSecurity", consults,
               f"{name} " + ("selects secured/unsecured encapsulation from mib.itsGnSecurity" if consults else
                             ("signs only for one security profile and " if signs else "never secures its packets and ") +
                             "does not consult mib.itsGnSecurity: with security ENABLED every peer drops these packets "
                             "(process_basic_header) and, with security DISABLED, profile-signed ones are still sent secured"),
               m.loc)


def accepted_means_handed_on(ctx) -> None:
    """A request answered ACCEPTED has been handed to the link layer, to a buffer that is flushed later (location-service
    buffer, contention buffer) or to another origination function - on every path on which a link layer exists."""
    P = ctx.prog
    r = P.cls(G.ROUTER)
    n_sites = 0
    for name, fi in sorted(r.methods.items()):
        if not name.startswith("gn_data_request"):
            continue
        sites, good_atoms = [], set()
        for ret in sorted([n for n in ast.walk(fi.node) if isinstance(n, ast.Return) and n.value is not None], key=lambda n: n.lineno):
            v = ret.value
            if not (isinstance(v, ast.Call) and (dotted(v.func) or "").endswith("GNDataConfirm")):
                continue
            code = [k.value for k in v.keywords if k.arg == "result_code"] or list(v.args[:1])
            if not code or not (dotted(code[0]) or "").endswith("ResultCode.ACCEPTED"):
                continue
            n_sites += 1
            bad, bad_atoms = [], set()
            try:
                paths = sem.paths_to(fi.node, ret)
            except ValueError:
                raise AnalysisError(f"C01: too many paths in {fi.short()}")
            ll_names = {"self.link_layer"} | {n_.targets[0].id for n_ in ast.walk(fi.node) if isinstance(n_, ast.Assign) and
                                              isinstance(n_.targets[0], ast.Name) and dotted(n_.value) == "self.link_layer"}
            for conds, stmts in paths:
                if any(f"!truthy({nm})" in conds or f"is(None,{nm})" in conds for nm in ll_names):
                    continue          # no link layer configured: nothing can be sent at all
                handed = False
                for s_ in stmts:
                    for c in [x for x in ast.walk(s_) if isinstance(x, ast.Call)]:
                        d = dotted(c.func) or ""
                        if any(d == f"{nm}.send" for nm in ll_names) or G.is_ll_send(P, fi, c) or \
                                d in ("self.gn_ls_request", "self.gn_area_cbf_forwarding") or \
                                d.startswith("self.gn_data_request") or (d.endswith(".append") and "_ls_packet_buffers" in d):
                            handed = True
                if not handed:
                    bad.append(sorted(a for a in conds if "link_layer" not in a)[-3:])
                    bad_atoms |= set(conds)
                else:
                    good_atoms |= set(conds)
            sites.append((ret, bad, bad_atoms))
        used: set = set()
        for k_acc, (ret, bad, bad_atoms) in enumerate(sites):
            # name the site by the calls whose outcome separates the losing paths from every path that does hand the packet on
            # (an ordinal would shift, and with it the ledger key, whenever a confirmation is added before this one)
            encl = [n_ for n_ in ast.walk(fi.node) if isinstance(n_, ast.If) and any(ret is x for b_ in n_.body for x in ast.walk(b_))]
            names = sorted({m_ for n_ in encl for m_ in re.findall(r"self\.(?:\w+\.)*(\w+)\(", unparse(n_.test))})
            if not names:
                names = sorted({m_ for a in bad_atoms - good_atoms for m_ in re.findall(r"self\.(?:\w+\.)*(\w+)\(", a)})
            disc = "+".join(names) if names else f"#{k_acc}"
            if disc in used:
                disc = f"{disc}#{k_acc}"
            used.add(disc)
            ctx.ob("C01.req-fwd", fi.short(), f"accepted-means-handed-on:{disc}", not bad,
                   "ACCEPTED is answered only after the packet was handed to the link layer or to a buffer that is flushed later" if not bad else
                   f"ACCEPTED is answered on a path that neither sends nor buffers the packet (conditions {bad[0]}): the payload is lost "
                   "although the requester was told it was accepted", f"{fi.module.rel}:{ret.lineno}")
    if n_sites < 4:
        raise AnalysisError(f"C01: only {n_sites} ACCEPTED confirmations found in the origination functions")


def run(ctx):
    ctx.explanation = (
        "Layout / provenance / guard rules across the BTP <-> GN boundary. Framing: every slice constant a consumer applies "
        "(packet[0:N], packet[N:], data[4:], the 4 media-dependent octets) must equal the wire length of the codec it strips "
        "(lengths come from the codec layout tables of C02). Forwarding completeness: every GNDataRequest keyword is fed by "
        "the same-named BTPDataRequest attribute on both BTP branches, every indication field by the decoded packet. "
        "Demultiplexing: the handler table is indexed by the decoded destination port. Guards: unicast delivery only for "
        "the own address, up-call only with an indication, unicast emission only for a known destination whose lookup is not "
        "pending; buffering protocol of the location service. Each rule is universal over payloads, ports and orders.")
    ctx.declined = ["exactly once / in request order over histories", "byte identity as a value fact",
                    "geometry (C07), signature round trip (C03/C05), duplicate handling (C06)"]
    frames(ctx)
    demux(ctx)
    req_fwd(ctx)
    addressee(ctx)
    location_service(ctx)
    sec_switch(ctx)
    accepted_means_handed_on(ctx)
