"""C19 - DCC algorithms respect TS 102 687 state, rate and duty-cycle limits.

Decides: internal agreement of the Annex A tables (tables: state order complete and ascending, rows in that order, bands
non-empty, contiguous, from 0 to above 1, rate x T_off = 1000, rates not increasing with load; Table A.2 installed for
every assumed T_on <= 500 us, A.1 above, the table for shorter packets allowing the higher rates); the single-step move
(one-step: one store to the state per evaluation, new index = old + k with k in {-1, 0, +1}, each k only when the target
index lies on that side, output state / rate / T_off those of the state JUST stored; band search in table order with
cbr_min <= cbr < cbr_max, falling back to the last state); the CBR range check (cbr-range: reactive and adaptive state
is updated only after 0 <= CBR <= 1 was established, else ValueError); the LIMERIC update path by path as formula
identities in entry-state terms (limeric: eq. 1-2 smoothing with the global pair when both are available, else the
local pair; eq. 3 offset = min(beta*(target - CBR'), delta_up_max) on the positive side, max(.., delta_down_max)
otherwise, on the freshly smoothed CBR, every path deciding that sign; eq. 4: the FIRST value stored into delta is
(1 - alpha)*delta + offset; every normal exit returns the delta stored in this evaluation); the final clamp path by
path (delta-clamp: the LAST value stored into delta is bounded above by delta_max and below by delta_min, through
min / max nesting or a branch condition; a new instance starts at its own parameters' delta_min); the gate keeper (gate: limits [25 ms, 1 s]; t_go = reference + clamp(interval)
with the unclamped interval equal to B.1 at admission / B.2 at a delta update; rescale only while closed with both
times set; new delta stored on every normal exit, non-positive delta rejected before any store; admit only under
is_open(t) and t_on > 0, storing t_pg and t_go; a rejected packet changes nothing; is_open <=> no opening scheduled or
t >= t_go - epsilon, epsilon <= 1e-6).
Does not decide convergence within four evaluations (follows from one-step + band agreement only informally),
floating-point rounding, nor the Annex A numbers themselves (internal agreement is checked instead).

The small, loop-free methods are decided on the set of their symbolic paths (`sym_paths`): every path carries its branch
conditions and the values stored, both in terms of the state at entry, so no rule depends on how the source spells
locals, branches or operand order.
"""
from __future__ import annotations

import ast
import copy
import itertools
import re

from ..prog import AnalysisError, ClassInfo, FuncInfo, dotted, unparse
from ..absint import MiniEval, Poly, to_poly
from ..match import pretty
from .. import sem

PROP = "C19"
RX = "management.dcc_reactive"
AD = "management.dcc_adaptive"


def norm(s):
    return re.sub(r"\s+", "", s)


def _load(e: ast.AST) -> ast.AST:
    e = copy.deepcopy(e)
    for n in ast.walk(e):
        if hasattr(n, "ctx"):
            n.ctx = ast.Load()
    return e


def _parse(src: str) -> ast.AST:
    return ast.parse(src, mode="eval").body


# ------------------------------------------------------------------------------------------------ symbolic paths
class SymPath:
    """One path through a loop-free function body.

    conds  : [(test expression, polarity)] in execution order
    env    : name / dotted attribute chain -> value, at the end of the path
    stores : [(name, value, statement)] in execution order (every assignment made on the path)
    value  : returned / raised expression (None for a bare return or falling off the end)
    All expressions are written in terms of the parameters and the object state AT ENTRY."""
    __slots__ = ("kind", "value", "stmt", "conds", "env", "stores")

    def __init__(self, kind, value, stmt, conds, env, stores):
        self.kind, self.value, self.stmt, self.conds, self.env, self.stores = kind, value, stmt, list(conds), dict(env), list(stores)

    def stored(self, name: str) -> list:
        return [(v, s) for n, v, s in self.stores if n == name]


def subst(e: ast.AST, env: dict) -> ast.AST:
    class S(ast.NodeTransformer):
        def visit_Name(self, n):
            if isinstance(n.ctx, ast.Load) and n.id in env:
                return copy.deepcopy(env[n.id])
            return n

        def visit_Attribute(self, n):
            d = dotted(n)
            if d is not None and isinstance(n.ctx, ast.Load) and d in env:
                return copy.deepcopy(env[d])
            return self.generic_visit(n)

        def visit_Lambda(self, n):
            return n
    return S().visit(copy.deepcopy(e))


def sym_paths(fi: FuncInfo, limit: int = 600) -> list:
    """All paths of a function made of assignments, if/else, with, literal-tuple for loops, return and raise."""
    out: list = []

    def opaque(name, stmt):
        return ast.Name(id=f"{name.replace('.', '_')}__opaque_L{getattr(stmt, 'lineno', 0)}", ctx=ast.Load())

    def bind(st, tgt, val, stmt):
        conds, env, stores = st
        if isinstance(tgt, ast.Name):
            name = tgt.id
        elif isinstance(tgt, ast.Attribute):
            base = dotted(subst(_load(tgt.value), env))
            if base is None:
                return st
            name = f"{base}.{tgt.attr}"
        elif isinstance(tgt, (ast.Tuple, ast.List)):
            if isinstance(val, (ast.Tuple, ast.List)) and len(val.elts) == len(tgt.elts):
                for t, v in zip(tgt.elts, val.elts):
                    st = bind(st, t, v, stmt)
            else:
                for t in tgt.elts:
                    if isinstance(t, (ast.Name, ast.Attribute)):
                        st = bind(st, t, opaque(dotted(t) or "x", stmt), stmt)
            return st
        elif isinstance(tgt, ast.Subscript):
            return (conds, env, stores + (("[]" + unparse(subst(_load(tgt), env)), val, stmt),))
        else:
            return st
        env = dict(env)
        env[name] = val
        for k in [k for k in env if k.startswith(name + ".")]:
            del env[k]
        return (conds, env, stores + ((name, val, stmt),))

    def step(s, st) -> list:
        conds, env, stores = st
        if isinstance(s, ast.Expr) or isinstance(s, (ast.Pass, ast.Import, ast.ImportFrom, ast.Global, ast.Nonlocal)):
            return [st]
        if isinstance(s, ast.Assign):
            v = subst(s.value, env)
            for t in s.targets:
                st = bind(st, t, v, s)
            return [st]
        if isinstance(s, ast.AnnAssign):
            return [bind(st, s.target, subst(s.value, env), s)] if s.value is not None else [st]
        if isinstance(s, ast.AugAssign):
            v = ast.BinOp(left=subst(_load(s.target), env), op=s.op, right=subst(s.value, env))
            return [bind(st, s.target, ast.fix_missing_locations(ast.copy_location(v, s)), s)]
        if isinstance(s, ast.If):
            t = subst(s.test, env)
            a = block(s.body, [(conds + ((t, True),), env, stores)])
            b = block(s.orelse, [(conds + ((t, False),), env, stores)])
            return a + b
        if isinstance(s, ast.With):
            return block(s.body, [st])
        if isinstance(s, ast.For) and not s.orelse:
            it = subst(s.iter, env)
            if not isinstance(it, (ast.Tuple, ast.List)):
                raise AnalysisError(f"sym_paths: loop over a non-literal in {fi.qual}:{s.lineno}")
            if any(isinstance(n, (ast.Break, ast.Continue)) for b in s.body for n in ast.walk(b)):
                raise AnalysisError(f"sym_paths: break/continue in {fi.qual}:{s.lineno}")
            states = [st]
            for elt in it.elts:
                states = block(s.body, [bind(x, s.target, elt, s) for x in states])
            return states
        if isinstance(s, ast.Return):
            out.append(SymPath("return", subst(s.value, env) if s.value is not None else None, s, conds, env, stores))
            return []
        if isinstance(s, ast.Raise):
            out.append(SymPath("raise", subst(s.exc, env) if s.exc is not None else None, s, conds, env, stores))
            return []
        raise AnalysisError(f"sym_paths: unsupported statement {type(s).__name__} in {fi.qual}:{getattr(s, 'lineno', 0)}")

    def block(stmts, states) -> list:
        for s in stmts:
            nxt = []
            for st in states:
                nxt += step(s, st)
            states = nxt
            if len(states) + len(out) > limit:
                raise AnalysisError(f"sym_paths: more than {limit} paths in {fi.qual}")
            if not states:
                break
        return states

    for st in block(fi.node.body, [((), {}, ())]):
        out.append(SymPath("fall", None, None, st[0], st[1], st[2]))
    return out


def split_ifexp(e: ast.AST) -> list:
    """[(conds, expression without conditional expressions)]: every `a if c else b` inside `e` is split into its cases."""
    first = None
    for n in ast.walk(e):
        if isinstance(n, ast.IfExp):
            first = n
            break
    if first is None:
        return [([], e)]
    out = []
    for pol, pick in ((True, first.body), (False, first.orelse)):
        for conds, x in split_ifexp(_replace_node(e, first, pick)):
            out.append(([(first.test, pol)] + conds, x))
    return out


def _replace_node(root: ast.AST, old: ast.AST, new: ast.AST) -> ast.AST:
    if root is old:
        return copy.deepcopy(new)
    if not isinstance(root, ast.AST):
        return root
    kw = {}
    for f, v in ast.iter_fields(root):
        if isinstance(v, list):
            kw[f] = [_replace_node(x, old, new) for x in v]
        else:
            kw[f] = _replace_node(v, old, new)
    return type(root)(**kw)


# ------------------------------------------------------------------------------------------------ canonical literals
class Lits:
    """Canonical literals of conditions: order / equality comparisons between arithmetic expressions are normalised
    through exact polynomials (`a < b`, `b > a`, `not a >= b`, `b - a > 0` all give the same literal); everything else
    uses sem.atoms.  A literal is a string, negative ones carry a leading '!'.  Two variable families per polynomial B:
    ge0(B) and gt0(B); B is the representative of {B, -B} with the smaller text."""

    def __init__(self, P, mod, ren=None):
        self.P, self.mod, self.ren = P, mod, ren or pretty

    def poly(self, e) -> Poly:
        return to_poly(self.P, self.mod, e, self.ren)

    def _ord(self, d: Poly, strict: bool) -> str:
        """literal of  d > 0 (strict)  /  d >= 0"""
        a, b = repr(d), repr(-d)
        if a <= b:
            return f"gt0({a})" if strict else f"ge0({a})"
        # d = -B:  -B > 0  ==  not (B >= 0) ;  -B >= 0  ==  not (B > 0)
        return f"!ge0({b})" if strict else f"!gt0({b})"

    def _eq(self, d: Poly) -> str:
        return f"eq0({min(repr(d), repr(-d))})"

    @staticmethod
    def neg(a: str) -> str:
        return a[1:] if a.startswith("!") else "!" + a

    def atoms(self, test: ast.AST, pol: bool = True) -> list:
        """Literals that certainly hold when `test` evaluates to `pol`."""
        if isinstance(test, ast.UnaryOp) and isinstance(test.op, ast.Not):
            return self.atoms(test.operand, not pol)
        if isinstance(test, ast.BoolOp):
            split = (isinstance(test.op, ast.And) and pol) or (isinstance(test.op, ast.Or) and not pol)
            if split:
                out = []
                for v in test.values:
                    out += self.atoms(v, pol)
                return out
            parts = sorted("&".join(sorted(self.atoms(v, pol))) for v in test.values)
            return ["or(" + "|".join(parts) + ")"]
        if isinstance(test, ast.Compare):
            if len(test.ops) > 1:
                if pol:
                    out, left = [], test.left
                    for op, right in zip(test.ops, test.comparators):
                        out += self.atoms(ast.Compare(left=left, ops=[op], comparators=[right]), True)
                        left = right
                    return out
                # a failed chain: one of the links fails
                parts, left = [], test.left
                for op, right in zip(test.ops, test.comparators):
                    parts.append("&".join(sorted(self.atoms(ast.Compare(left=left, ops=[op], comparators=[right]), False))))
                    left = right
                return ["or(" + "|".join(sorted(parts)) + ")"]
            op, a, b = test.ops[0], test.left, test.comparators[0]
            if isinstance(op, (ast.Lt, ast.LtE, ast.Gt, ast.GtE)):
                big, small = (a, b) if isinstance(op, (ast.Gt, ast.GtE)) else (b, a)
                d = self.poly(big) - self.poly(small)
                strict = isinstance(op, (ast.Gt, ast.Lt))
                return [self._ord(d, strict)] if pol else [self._ord(-d, not strict)]
            if isinstance(op, (ast.Eq, ast.NotEq)) and not any(isinstance(x, ast.Constant) and not isinstance(x.value, (int, float))
                                                               for x in (a, b)):
                lit = self._eq(self.poly(a) - self.poly(b))
                return [lit if pol != isinstance(op, ast.NotEq) else "!" + lit]
        if isinstance(test, ast.Constant):
            return []
        return [self.ren(x) for x in sem.atoms(test, pol)]

    def of(self, conds) -> set:
        """Literals of a path condition list, closed under  x > 0 => x >= 0  and  not x >= 0 => not x > 0."""
        out = set()
        for t, pol in conds:
            out.update(self.atoms(t, pol))
        for a in list(out):
            if a.startswith("gt0("):
                out.add("ge0(" + a[4:])
            elif a.startswith("!ge0("):
                out.add("!gt0(" + a[5:])
        return out

    def want(self, src: str, pol: bool = True) -> set:
        return self.of([(_parse(src), pol)])

    def holds(self, have: set, src: str, pol: bool = True) -> bool:
        w = self.want(src, pol)
        return bool(w) and w <= have

    def equal(self, have: set, a: str, b: str) -> bool:
        """`a == b` is established: an equality literal, or both `a >= b` and `a <= b`."""
        return self.holds(have, f"({a}) == ({b})") or (self.holds(have, f"({a}) >= ({b})") and self.holds(have, f"({a}) <= ({b})"))

    # ---- truth conditions as DNF over literals
    def dnf(self, e: ast.AST, pol: bool = True) -> list:
        """[frozenset(literals)]: `e` evaluates to `pol` iff all literals of one member hold."""
        if isinstance(e, ast.Constant):
            return [frozenset()] if bool(e.value) == pol else []
        if isinstance(e, ast.UnaryOp) and isinstance(e.op, ast.Not):
            return self.dnf(e.operand, not pol)
        if isinstance(e, ast.Call) and dotted(e.func) == "bool" and len(e.args) == 1 and not e.keywords:
            return self.dnf(e.args[0], pol)
        if isinstance(e, ast.IfExp):
            return self._and(self.dnf(e.test, True), self.dnf(e.body, pol)) + self._and(self.dnf(e.test, False), self.dnf(e.orelse, pol))
        if isinstance(e, ast.BoolOp):
            disj = (isinstance(e.op, ast.Or) and pol) or (isinstance(e.op, ast.And) and not pol)
            parts = [self.dnf(v, pol) for v in e.values]
            if disj:
                return [m for p in parts for m in p]
            acc = [frozenset()]
            for p in parts:
                acc = self._and(acc, p)
            return acc
        if isinstance(e, ast.Compare) and len(e.ops) > 1:
            links, left = [], e.left
            for op, right in zip(e.ops, e.comparators):
                links.append(ast.Compare(left=left, ops=[op], comparators=[right]))
                left = right
            return self.dnf(ast.BoolOp(op=ast.And(), values=links), pol)
        return [frozenset(self.atoms(e, pol))]

    @staticmethod
    def _and(a: list, b: list) -> list:
        return [x | y for x in a for y in b]

    @staticmethod
    def equivalent(d1: list, d2: list, max_vars: int = 14):
        """Truth-table equivalence of two DNFs over their literals (None when there are too many variables)."""
        var = sorted({l.lstrip("!") for d in (d1, d2) for m in d for l in m})
        if len(var) > max_vars:
            return None

        def ev(d, asg):
            return any(all(asg[l.lstrip("!")] != l.startswith("!") for l in m) for m in d)
        for bits in itertools.product((False, True), repeat=len(var)):
            asg = dict(zip(var, bits))
            # gt0(B) implies ge0(B): skip assignments that cannot occur
            if any(v.startswith("gt0(") and asg[v] and ("ge0(" + v[4:]) in asg and not asg["ge0(" + v[4:]] for v in var):
                continue
            if ev(d1, asg) != ev(d2, asg):
                return False
        return True


def bind_call(P, fi: FuncInfo, call: ast.Call) -> dict:
    """parameter / dataclass-field name -> argument expression of a call to a repository function or class."""
    tg = P.call_targets(fi, call, count=False, cha=False)
    names, off = None, 0
    for t in tg:
        if isinstance(t, ClassInfo):
            init = t.methods.get("__init__")
            if init is not None:
                names, off = init.params, 1
            else:
                names = []
                for c in reversed(t.mro()):
                    for f, (ann, _) in c.fields.items():
                        if ann is not None and f not in names:
                            names.append(f)
            break
        if isinstance(t, FuncInfo):
            names = t.params
            off = 1 if t.kind in ("method", "classmethod", "property") and names else 0
            break
    out = {}
    for i, a in enumerate(call.args):
        if names is not None and i + off < len(names):
            out[names[i + off]] = a
        else:
            out[f"#{i}"] = a
    for kw in call.keywords:
        if kw.arg:
            out[kw.arg] = kw.value
    return out


def run(ctx):
    P = ctx.prog
    ctx.explanation = (
        "Table rules (K11) on the literal Annex A tables (folded from source) and on the table the constructor selects for "
        "every assumed T_on; path rules on the reactive state move (every symbolic path of update(): new index = old index "
        "+ k with k in {-1, 0, +1}, the branch condition orders target and current index accordingly, the output row is the "
        "row of the state just stored); formula-identity rules: the values stored into the adaptive filter state and the "
        "gate times on every path are written in terms of the state at entry and normalised to polynomials with exact "
        "rational coefficients (min/max as canonical atoms), then compared with clause 5.4 equations 1-5 and Annex B "
        "equations B.1/B.2; truth-table equivalence of the gate predicate with `no opening scheduled or t >= t_go - eps`. "
        "A formula identity holds for every input sequence at once.")
    ctx.declined = ["convergence 'within four evaluations' as a run property", "floating point rounding",
                    "comparison with remembered Annex A numbers (internal agreement is checked instead)"]
    rows = tables(ctx)
    selection(ctx, rows)
    ctx.floor("C19.tables", 41)
    reactive(ctx)
    adaptive(ctx)
    gate(ctx)


# ------------------------------------------------------------------------------------------------ tables
def tables(ctx) -> dict:
    P = ctx.prog
    m = P.module(RX)
    order = m.consts.get("_STATE_ORDER")
    if not isinstance(order, ast.List):
        raise AnalysisError("C19: _STATE_ORDER is not a list literal")
    onames = [dotted(e).split(".")[-1] for e in order.elts]
    st = P.cls(f"{RX}.DccState")
    vals = [st.enum_members.get(n) for n in onames]
    ctx.ob("C19.tables", f"{RX}._STATE_ORDER", "covers-all-states", sorted(onames) == sorted(st.enum_members),
           f"_STATE_ORDER lists {onames}; DccState has {sorted(st.enum_members)}", f"{m.rel}:{order.lineno}")
    ctx.ob("C19.tables", f"{RX}._STATE_ORDER", "ascending", vals == sorted(vals) and len(set(vals)) == len(vals),
           f"state order values {vals} must be strictly ascending (RELAXED .. RESTRICTIVE)", f"{m.rel}:{order.lineno}")
    all_rows = {}
    for tname in ("_TABLE_A1", "_TABLE_A2"):
        t = m.consts.get(tname)
        if not isinstance(t, ast.Dict):
            raise AnalysisError(f"C19: {tname} is not a dict literal")
        rows = []
        for k, v in zip(t.keys, t.values):
            if not (isinstance(v, ast.Call) and dotted(v.func) == "DccStateConfig"):
                raise AnalysisError(f"C19: {tname} row is not a DccStateConfig(...) literal")
            cfg = P.cls(f"{RX}.DccStateConfig")
            fields = [n for n, (ann, _) in cfg.fields.items() if ann is not None]
            args = {fields[i]: P.try_fold(m, a) for i, a in enumerate(v.args)}
            args.update({kw.arg: P.try_fold(m, kw.value) for kw in v.keywords})
            rows.append((dotted(k).split(".")[-1], args, v.lineno))
        all_rows[tname] = rows
        con = f"{RX}.{tname}"
        ctx.ob("C19.tables", con, "row-order", [r[0] for r in rows] == onames,
               f"rows {[r[0] for r in rows]} must follow _STATE_ORDER (the band search relies on it)", f"{m.rel}:{t.lineno}")
        ctx.ob("C19.tables", con, "starts-at-0", rows[0][1].get("cbr_min") == 0, f"first band starts at {rows[0][1].get('cbr_min')}",
               f"{m.rel}:{rows[0][2]}")
        ctx.ob("C19.tables", con, "ends-above-1", rows[-1][1].get("cbr_max", 0) > 1.0,
               f"last band ends at {rows[-1][1].get('cbr_max')} (must include CBR = 1.0 in a half-open band)", f"{m.rel}:{rows[-1][2]}")
        for (n1, a1, l1), (n2, a2, l2) in zip(rows, rows[1:]):
            ctx.ob("C19.tables", con, f"contiguous:{n1}->{n2}", a1.get("cbr_max") == a2.get("cbr_min"),
                   f"band {n1} ends at {a1.get('cbr_max')}, band {n2} starts at {a2.get('cbr_min')}", f"{m.rel}:{l2}")
        for n1, a1, l1 in rows:
            r, toff = a1.get("packet_rate_hz"), a1.get("t_off_ms")
            ok = isinstance(r, (int, float)) and isinstance(toff, (int, float)) and abs(r * toff - 1000.0) < 1e-9
            ctx.ob("C19.tables", con, f"rate-toff:{n1}", ok, f"{n1}: packet rate {r} Hz x T_off {toff} ms = {r * toff if ok or r else '?'} (must be 1000)",
                   f"{m.rel}:{l1}")
            ctx.ob("C19.tables", con, f"band-nonempty:{n1}", a1.get("cbr_min") < a1.get("cbr_max"),
                   f"{n1}: [{a1.get('cbr_min')}, {a1.get('cbr_max')})", f"{m.rel}:{l1}")
        rates = [a["packet_rate_hz"] for _, a, _ in rows]
        ctx.ob("C19.tables", con, "rate-monotone", rates == sorted(rates, reverse=True),
               f"packet rates {rates} must not increase with channel load", f"{m.rel}:{t.lineno}")
    return all_rows


T_ON_SPLIT_US = 500          # Annex A: Table A.2 assumes T_on <= 500 us, Table A.1 T_on <= 1 ms


def selection(ctx, rows: dict):
    """Which Annex A table DccReactive.__init__ installs, decided for every assumed T_on of 0 .. 4000 us (and 10^6)."""
    P = ctx.prog
    m = P.module(RX)
    fi = P.func(f"{RX}.DccReactive.__init__")
    var = fi.params[1]
    cases = []
    for p in sym_paths(fi):
        if p.kind == "raise":
            continue
        v = p.env.get("self._table")
        if v is None:
            cases.append((p.conds, None))
            continue
        for conds, x in split_ifexp(v):
            cases.append((list(p.conds) + conds, x))

    def table_of(x):
        if x is None:
            return None
        r = P.resolve_expr_entity(m, x)
        if isinstance(r, tuple) and r[0] == "const":
            for tname in rows:
                if r[2] is m.consts.get(tname):
                    return tname
        return None

    picked = {}
    samples = list(range(0, 4001)) + [10 ** 6]
    for t_on in samples:
        hit = []
        for conds, x in cases:
            ev = MiniEval(P, fi, {var: t_on})
            if all(bool(ev.ev(c)) == pol for c, pol in conds):
                hit.append(table_of(x))
        picked[t_on] = hit[0] if len(hit) == 1 else None
    con, loc = fi.short(), fi.loc
    bad_lo = [t for t in samples if t <= T_ON_SPLIT_US and picked[t] != "_TABLE_A2"]
    bad_hi = [t for t in samples if t > T_ON_SPLIT_US and picked[t] != "_TABLE_A1"]
    ctx.ob("C19.tables", con, f"selection:t_on<={T_ON_SPLIT_US}us", not bad_lo,
           f"every assumed T_on of at most {T_ON_SPLIT_US} us installs Table A.2" if not bad_lo else
           f"T_on = {bad_lo[0]} us installs {picked[bad_lo[0]]} (Annex A: Table A.2 is the table for T_on <= {T_ON_SPLIT_US} us)", loc)
    ctx.ob("C19.tables", con, f"selection:t_on>{T_ON_SPLIT_US}us", not bad_hi,
           f"every assumed T_on above {T_ON_SPLIT_US} us installs Table A.1" if not bad_hi else
           f"T_on = {bad_hi[0]} us installs {picked[bad_hi[0]]} (Annex A: Table A.1 is the table for T_on up to 1 ms)", loc)
    # name-independent cross check: the table used for the shorter packets is the one that allows the higher packet rates
    short, long_ = picked[T_ON_SPLIT_US], picked[T_ON_SPLIT_US + 1]
    ok = short in rows and long_ in rows and short != long_
    if ok:
        rs = [a["packet_rate_hz"] for _, a, _ in rows[short]]
        rl = [a["packet_rate_hz"] for _, a, _ in rows[long_]]
        ok = len(rs) == len(rl) and all(x >= y for x, y in zip(rs, rl)) and any(x > y for x, y in zip(rs, rl))
    ctx.ob("C19.tables", con, "selection:shorter-packets-higher-rate", ok,
           f"table for T_on <= {T_ON_SPLIT_US} us = {short}, table above = {long_}: the table for the shorter packets must allow "
           f"row by row at least the rates of the other (equal duty cycle)", loc)


# ------------------------------------------------------------------------------------------------ shared path rules
def _cbr_guard(ctx, fi: FuncInfo, L: Lits, normal: list, params: list, rule: str):
    for p in params:
        bad = [x for x in normal if not L.holds(L.of(x.conds), f"0.0 <= {p} <= 1.0")]
        ctx.ob(rule, fi.short(), f"range:{p}", not bad and bool(normal),
               f"state is only updated after `0.0 <= {p} <= 1.0` was established (else ValueError)" if not bad else
               f"the update proceeds without an established `0.0 <= {p} <= 1.0` on a path "
               f"(conditions: {[('' if pol else 'not ') + unparse(t)[:40] for t, pol in bad[0].conds][:4]})", fi.loc)


# ------------------------------------------------------------------------------------------------ reactive
def reactive(ctx):
    P = ctx.prog
    fi = P.func(f"{RX}.DccReactive.update")
    mod = fi.module
    L = Lits(P, mod)
    cbr = fi.params[1]
    paths = sym_paths(fi)
    normal = [p for p in paths if p.kind != "raise"]
    if not normal:
        raise AnalysisError("C19: DccReactive.update has no normal exit")
    _cbr_guard(ctx, fi, L, normal, [cbr], "C19.cbr-range")
    con = fi.short()
    n_st = {len(p.stored("self.state")) for p in normal}
    ctx.ob("C19.one-step", con, "single-store", n_st == {1}, f"store(s) to self.state per evaluation: {sorted(n_st)}", fi.loc)
    order = mod.consts.get("_STATE_ORDER")
    I = f"_STATE_ORDER.index(self.state)"
    T = f"_STATE_ORDER.index(self._target_state({cbr}))"
    ks, bad_step, bad_dir, bad_out = set(), [], {}, {}
    for p in normal:
        new = p.env.get("self.state")
        k = None
        if isinstance(new, ast.Subscript):
            r = P.resolve_expr_entity(mod, new.value)
            d = L.poly(new.slice) - L.poly(_parse(I))
            if isinstance(r, tuple) and r[0] == "const" and r[2] is order and d.is_const() and d.cval().denominator == 1:
                k = int(d.cval())
        if k not in (-1, 0, 1):
            bad_step.append(pretty(unparse(new)) if new is not None else "<no store>")
            continue
        ks.add(k)
        have = L.of(p.conds)
        if k == 1:
            okd = L.holds(have, f"{T} > {I}")
        elif k == -1:
            okd = L.holds(have, f"{T} < {I}")
        else:
            okd = L.equal(have, T, I)
        if not okd:
            bad_dir.setdefault(k, [("" if pol else "not ") + unparse(t) for t, pol in p.conds][-2:])
        # output row of the NEW state
        out = p.value
        kws = bind_call(P, fi, out) if isinstance(out, ast.Call) and any(
            isinstance(t, ClassInfo) and t.name == "DccReactiveOutput" for t in P.call_targets(fi, out, count=False)) else None
        if kws is None:
            bad_out.setdefault("state", f"returns `{unparse(out)[:60] if out is not None else None}`")
            continue
        if not ("state" in kws and sem.same(kws["state"], new)):
            bad_out.setdefault("state", f"state = `{unparse(kws.get('state', ast.Constant(None)))[:80]}`")
        for f_ in ("packet_rate_hz", "t_off_ms"):
            want = ast.Attribute(value=ast.Subscript(value=_parse("self._table"), slice=copy.deepcopy(new), ctx=ast.Load()), attr=f_, ctx=ast.Load())
            if not (f_ in kws and sem.same(kws[f_], want)) or "self._table" in p.env:
                bad_out.setdefault(f_, f"{f_} = `{unparse(kws.get(f_, ast.Constant(None)))[:90]}`")
    ctx.ob("C19.one-step", con, "step-set", not bad_step and ks == {-1, 0, 1},
           f"new state index = old index + k with k in {sorted(ks)}" + (f"; not a one-step move: `{bad_step[0][:80]}`" if bad_step else "") +
           "; must be exactly the moves {-1, 0, +1} along _STATE_ORDER", fi.loc)
    for k, name, txt in ((1, "towards-target:up", "above"), (-1, "towards-target:down", "below"), (0, "stays-at-target", "equal to")):
        ctx.ob("C19.one-step", con, name, k in ks and k not in bad_dir,
               f"index {'+' if k >= 0 else '-'}= {abs(k)} only when the target state's index is {txt} the current one" if k in ks and k not in bad_dir
               else f"a path moves the index by {k:+d} without the target index being {txt} the current one (conditions {bad_dir.get(k)})", fi.loc)
    for f_ in ("state", "packet_rate_hz", "t_off_ms"):
        ctx.ob("C19.one-step", con, f"output:{f_}", f_ not in bad_out,
               f"{f_} of the output is that of the state just stored" if f_ not in bad_out else
               f"{bad_out[f_]}; must be the {'state just stored' if f_ == 'state' else 'table row of the state just stored'}", fi.loc)
    band_search(ctx, L)
    ctx.floor("C19.one-step", 11)


def band_search(ctx, L: Lits):
    """_target_state: first row in table order whose half-open band [cbr_min, cbr_max) contains the CBR; else the last state."""
    P = ctx.prog
    ts = P.func(f"{RX}.DccReactive._target_state")
    fl = ctx.flows.get(ts)
    cbr = ts.params[1]
    loops = [n for n in ts.node.body if isinstance(n, ast.For)]
    ok_iter = False
    key = row = None
    if len(loops) == 1:
        lp = loops[0]
        it = lp.iter
        if isinstance(it, ast.Call) and isinstance(it.func, ast.Attribute) and it.func.attr == "items" and dotted(it.func.value) == "self._table" \
                and isinstance(lp.target, ast.Tuple) and len(lp.target.elts) == 2 and all(isinstance(e, ast.Name) for e in lp.target.elts):
            key, row = lp.target.elts[0].id, lp.target.elts[1].id
            ok_iter = not any(isinstance(n, (ast.Break, ast.Continue)) for n in ast.walk(lp))
    ctx.ob("C19.one-step", ts.short(), "band-search-order", ok_iter,
           "the band search walks self._table.items() in table order without skipping rows", ts.loc)
    ok_band, ok_last, n_in = ok_iter, False, 0
    why = ""
    for k, s, st in fl.exits:
        if k != "return":
            continue
        inside = ok_iter and any(s is n for n in ast.walk(loops[0]))
        if inside:
            n_in += 1
            have = L.of([(f.node, f.pol) for f in st.facts if f.kind == "cond"])
            want = L.want(f"{row}.cbr_min <= {cbr} < {row}.cbr_max")
            if not (isinstance(s.value, ast.Name) and s.value.id == key and have == want):
                ok_band = False
                why = f"returns `{unparse(s.value)}` under {sorted(have)}"
            # the value compared with the band edges is the measured CBR itself, not something derived from it first
            rebound = [d for d in fl.reaching(cbr, st) if d.kind != "param"]
            if rebound:
                ok_band = False
                why = (f"`{cbr}` is rebound before the comparison (`{unparse(rebound[0].value)[:50] if rebound[0].value is not None else '?'}`): "
                       "a rounded / scaled CBR falls into the neighbouring band next to an edge")
        else:
            r = P.resolve_expr_entity(ts.module, s.value) if s.value is not None else None
            order = ts.module.consts.get("_STATE_ORDER")
            last = P.resolve_expr_entity(ts.module, order.elts[-1]) if isinstance(order, ast.List) and order.elts else None
            ok_last = isinstance(r, tuple) and r[0] == "enum" and isinstance(last, tuple) and r[1:] == last[1:]
    ctx.ob("C19.one-step", ts.short(), "band-test", ok_band and n_in == 1,
           "target band test is `cbr_min <= cbr < cbr_max` (first matching row)" if ok_band and n_in == 1 else
           f"the band test is not exactly `cbr_min <= cbr < cbr_max`: {why}", ts.loc)
    ctx.ob("C19.one-step", ts.short(), "band-fallback", ok_last, "a CBR in no band maps to the last (most restrictive) state", ts.loc)


# ------------------------------------------------------------------------------------------------ adaptive
def _ren(s: str) -> str:
    s = pretty(s)
    return s.replace("self.parameters.", "p.")


def adaptive(ctx):
    P = ctx.prog
    fi = P.func(f"{AD}.DccAdaptive.update")
    mod = fi.module
    L = Lits(P, mod, _ren)
    paths = sym_paths(fi)
    normal = [p for p in paths if p.kind != "raise"]
    if not [p for p in normal if p.kind == "return"]:
        raise AnalysisError("C19: DccAdaptive.update has no return")
    pr = fi.params
    loc_now, loc_prev, glb_now, glb_prev = pr[1], pr[2], pr[3], pr[4]
    _cbr_guard(ctx, fi, L, normal, [loc_now, loc_prev], "C19.cbr-range")
    con = fi.short()
    rep = lambda e: repr(L.poly(e))

    # every normal exit returns the delta stored in this evaluation, after both filter states were stored
    bad = [p for p in normal if not (p.stored("self.delta") and p.stored("self.cbr_its_s") and p.value is not None
                                     and sem.same(p.value, p.env["self.delta"]))]
    ctx.ob("C19.limeric", con, "return#0:fresh", not bad,
           "returns self.delta after both filter states were stored in this evaluation" if not bad else
           "a return is reachable before the smoothed CBR / delta were updated (equations 1-4 skipped) or returns something "
           f"else than the stored delta: `{unparse(bad[0].value)[:60] if bad[0].value is not None else None}`",
           f"{mod.rel}:{bad[0].stmt.lineno if bad and bad[0].stmt is not None else fi.node.lineno}")
    full = [p for p in normal if p.stored("self.delta") and p.stored("self.cbr_its_s")]
    # eq 1-2: smoothed CBR, global pair when both are available, else the local pair
    bad12 = []
    for p in full:
        have = L.of(p.conds)
        use_g = L.holds(have, f"{glb_now} is not None") and L.holds(have, f"{glb_prev} is not None")
        a, b = (glb_now, glb_prev) if use_g else (loc_now, loc_prev)
        if not use_g and not (L.holds(have, f"{glb_now} is None") or L.holds(have, f"{glb_prev} is None") or
                              L.holds(have, f"{glb_now} is not None and {glb_prev} is not None", False)):
            bad12.append("the local pair is used although the global pair may be available")
            continue
        stores = p.stored("self.cbr_its_s")
        got = rep(stores[0][0])
        want = rep(_parse(f"0.5*self.cbr_its_s + 0.5*(({a} + {b})/2.0)"))
        if len(stores) != 1 or got != want:
            bad12.append(f"CBR_ITS-S' = {got} with the {'global' if use_g else 'local'} pair")
    ctx.ob("C19.limeric", con, "eq1-2:cbr-smoothing", bool(full) and not bad12,
           "CBR_ITS-S' = 0.5*CBR_ITS-S + 0.5*(CBR + CBR_prev)/2 with the global pair when both are available, else the local pair"
           if full and not bad12 else f"{bad12[:1]}; clause 5.4 gives 0.5*CBR_ITS-S + 0.5*(CBR + CBR_prev)/2", fi.loc)
    # eq 3: offset with clamps, computed from the freshly stored smoothed CBR; eq 4: exponential filter
    res = {"up": [], "down": [], "none": [], "eq4": []}
    seen = {"up": 0, "down": 0}
    for p in full:
        have = L.of(p.conds)
        cbr_new = p.stored("self.cbr_its_s")[0][0]
        env = {"CBR": cbr_new}
        D = subst(_parse("self.parameters.cbr_target - CBR"), env)
        up = L.of([(ast.Compare(left=D, ops=[ast.Gt()], comparators=[ast.Constant(0)]), True)]) <= have
        down = L.of([(ast.Compare(left=D, ops=[ast.Gt()], comparators=[ast.Constant(0)]), False)]) <= have
        dstores = p.stored("self.delta")
        first = dstores[0][0]
        # delta' - (1 - alpha) * delta  is the offset that was applied
        applied = L.poly(first) - L.poly(_parse("(1.0 - self.parameters.alpha) * self.delta"))
        if up == down:
            res["none"].append([("" if pol else "not ") + _ren(unparse(t))[:60] for t, pol in p.conds][-3:])
            continue
        kind = "up" if up else "down"
        seen[kind] += 1
        want = subst(_parse("min(self.parameters.beta*(self.parameters.cbr_target - CBR), self.parameters.delta_up_max)" if up else
                            "max(self.parameters.beta*(self.parameters.cbr_target - CBR), self.parameters.delta_down_max)"), env)
        if repr(applied) != rep(want):
            res[kind].append(f"delta' - (1 - alpha)*delta = {applied!r}")
    for kind in ("up", "down"):
        ok = seen[kind] > 0 and not res[kind]
        ctx.ob("C19.limeric", con, f"eq3:offset-{kind}", ok,
               (f"on the {'positive' if kind == 'up' else 'non-positive'} side the applied offset is "
                f"{'min(beta*(CBR_target - CBR_ITS-S), delta_up_max)' if kind == 'up' else 'max(beta*(CBR_target - CBR_ITS-S), delta_down_max)'}"
                " of the freshly smoothed CBR") if ok else
               f"offset ({kind}) is not equation {'2' if kind == 'up' else '3'}: {res[kind][:1] or 'no such path'}", fi.loc)
        ctx.ob("C19.limeric", con, f"eq3:branch-{kind}", seen[kind] > 0 and not res["none"],
               f"{'min with delta_up_max' if kind == 'up' else 'max with delta_down_max'} is applied on the "
               f"{'positive' if kind == 'up' else 'non-positive'} side of (CBR_target - CBR_ITS-S)" if seen[kind] > 0 and not res["none"]
               else f"a path does not decide the sign of (CBR_target - CBR_ITS-S'): {res['none'][:1]}", fi.loc)
    # eq 4: on every full path the FIRST value stored into delta is (1 - alpha)*delta + offset, where the offset is what
    # eq. 3 was checked on above (identity in entry-state terms: names of locals do not matter)
    n4, bad4 = 0, []
    for p in full:
        first = p.stored("self.delta")[0][0]
        n4 += 1
        core = L.poly(_parse("(1.0 - self.parameters.alpha) * self.delta"))
        off = L.poly(first) - core
        # the remainder must not mention delta or alpha any more (it is the offset term alone)
        if "self.delta" in repr(off).replace("self.parameters.delta", "") or ".alpha" in repr(off):
            bad4.append(repr(L.poly(first)))
    ctx.ob("C19.limeric", con, "eq4:present", n4 > 0, f"{n4} path(s) store the filtered delta", fi.loc)
    ctx.ob("C19.limeric", con, "eq4:formula", n4 > 0 and not bad4,
           "delta' = (1 - alpha)*delta + delta_offset on every path" if n4 and not bad4 else
           f"delta' = {bad4[:1]}; clause 5.4 eq. 4: (1 - alpha)*delta + delta_offset", fi.loc)
    # final clamp: on every normal path the LAST value stored into delta lies in [delta_min, delta_max]
    pcls = P.cls(f"{AD}.DccAdaptiveParameters")
    dmin = P.try_fold(pcls.module, pcls.fields["delta_min"][1]) if "delta_min" in pcls.fields else None
    dmax = P.try_fold(pcls.module, pcls.fields["delta_max"][1]) if "delta_max" in pcls.fields else None
    LO, HI = "self.parameters.delta_min", "self.parameters.delta_max"

    def bounded(V, kind, have) -> bool:
        mine, other = (HI, LO) if kind == "upper" else (LO, HI)
        cv = sem.cx(V)
        if cv == sem.cx(_parse(mine)):
            return True
        if cv == sem.cx(_parse(other)) and isinstance(dmin, (int, float)) and isinstance(dmax, (int, float)) and dmin <= dmax:
            return True
        if isinstance(V, ast.Call) and dotted(V.func) in ("min", "max") and V.args:
            fn = dotted(V.func)
            sub = [bounded(a_, kind, have) for a_ in V.args]
            if (kind == "upper") == (fn == "min"):
                return any(sub)
            return all(sub)
        try:
            return L.holds(have, f"{unparse(V)} <= {mine}" if kind == "upper" else f"{unparse(V)} >= {mine}")
        except Exception:
            return False
    up_bad, lo_bad = [], []
    for p in full:
        have = L.of(p.conds)
        last = p.stored("self.delta")[-1][0]
        if not bounded(last, "upper", have):
            up_bad.append(_ren(unparse(last))[:90])
        if not bounded(last, "lower", have):
            lo_bad.append(_ren(unparse(last))[:90])
    ctx.ob("C19.delta-clamp", con, "upper", bool(full) and not up_bad,
           "on every path the delta finally stored is bounded above by parameters.delta_max" if full and not up_bad else
           f"delta can leave [delta_min, delta_max] upwards: finally stored `{up_bad[:1]}`", fi.loc)
    ctx.ob("C19.delta-clamp", con, "lower", bool(full) and not lo_bad,
           "on every path the delta finally stored is bounded below by parameters.delta_min" if full and not lo_bad else
           f"delta can leave [delta_min, delta_max] downwards: finally stored `{lo_bad[:1]}`", fi.loc)
    # before the first update delta already lies in the INSTANCE's range: it starts at self.parameters.delta_min (set in
    # __post_init__ / __init__), not at a class-level default that ignores the parameters the object was built with
    acls = fi.cls
    init_stores = []
    for m_ in acls.methods.values():
        if m_.name in ("__post_init__", "__init__"):
            mfl = ctx.flows.get(m_)
            for n_ in ast.walk(m_.node):
                if isinstance(n_, ast.Assign) and any(dotted(t) == "self.delta" for t in n_.targets) and id(n_) in mfl.before:
                    init_stores.append(mfl.expand(n_.value, mfl.before[id(n_)]))
    ok_init = bool(init_stores) and all(sem.same(v_, LO) for v_ in init_stores)
    ctx.ob("C19.limeric", acls.qual[10:], "delta-starts-at-the-instance-minimum", ok_init,
           "a new DccAdaptive starts with delta = self.parameters.delta_min" if ok_init else
           "a new DccAdaptive does not start with delta = self.parameters.delta_min (" +
           (f"initial stores: {[sem.cx(v_)[:40] for v_ in init_stores]}" if init_stores else "no store in __post_init__ / __init__: the field default is a "
            "class-level constant") + "): with custom parameters delta lies outside [delta_min, delta_max] until - and the first update deviates from "
           "clause 5.4 because it smooths from the wrong start", f"{acls.module.rel}:{acls.node.lineno}")
    ctx.floor("C19.limeric", 8)


def _clamp_sequence(fi: FuncInfo, var: str):
    """Symbolic [lo, hi] of `var` at the end of the top-level statement sequence (clamp idioms only)."""
    lo = hi = None
    for st in fi.node.body:
        if isinstance(st, ast.Assign) and any(dotted(t) == var for t in st.targets):
            lo = hi = None
            v = st.value
            if isinstance(v, ast.Call) and dotted(v.func) in ("min", "max") and len(v.args) == 2:
                outer = dotted(v.func)
                for inner, b in ((v.args[0], v.args[1]), (v.args[1], v.args[0])):
                    if isinstance(inner, ast.Call) and dotted(inner.func) in ("min", "max") and dotted(inner.func) != outer:
                        ib = [a for a in inner.args if not (isinstance(a, ast.Call))]
                        b2 = unparse(ib[-1]) if ib else None
                        if outer == "min":
                            hi, lo = unparse(b), b2
                        else:
                            lo, hi = unparse(b), b2
        elif isinstance(st, ast.If) and not st.orelse and len(st.body) == 1 and isinstance(st.body[0], ast.Assign) \
                and dotted(st.body[0].targets[0]) == var and isinstance(st.test, ast.Compare) and len(st.test.ops) == 1 \
                and dotted(st.test.left) == var:
            b = unparse(st.test.comparators[0])
            if unparse(st.body[0].value) == b:
                if isinstance(st.test.ops[0], (ast.Gt, ast.GtE)):
                    hi = b
                elif isinstance(st.test.ops[0], (ast.Lt, ast.LtE)):
                    lo = b
        else:
            for n in ast.walk(st):
                if isinstance(n, (ast.Assign, ast.AugAssign)):
                    tg = n.targets if isinstance(n, ast.Assign) else [n.target]
                    if any(dotted(t) == var for t in tg):
                        lo = hi = None
    return lo, hi


# ------------------------------------------------------------------------------------------------ gate keeper
def gate(ctx):
    P = ctx.prog
    gk = P.cls(f"{AD}.GateKeeper")
    mod = gk.module
    L = Lits(P, mod)
    cmin = P.try_fold(mod, gk.fields["GATE_OPEN_MIN_INTERVAL_S"][1])
    cmax = P.try_fold(mod, gk.fields["GATE_OPEN_MAX_INTERVAL_S"][1])
    ctx.ob("C19.gate", gk.qual[10:], "constants", cmin == 0.025 and cmax == 1.0,
           f"gate interval limits [{cmin}, {cmax}] s; TS 102 687 Annex B: [0.025, 1.0]", f"{mod.rel}:{gk.node.lineno}")

    def class_const(e):
        """value of self.X / GateKeeper.X / cls.X for a class-level constant X, else a folded module constant"""
        if isinstance(e, ast.Attribute) and isinstance(e.value, ast.Name) and e.value.id in ("self", "cls", gk.name) and e.attr in gk.fields:
            return P.try_fold(mod, gk.fields[e.attr][1])
        return P.try_fold(mod, e)

    n_store = 0
    for name in ("admit_packet", "update_delta"):
        fi = gk.methods[name]
        t = fi.params[1]
        paths = [p for p in sym_paths(fi) if p.kind != "raise"]
        res = {k: [] for k in ("shape", "reference", "clamp", "formula", "closed")}
        n_here = 0
        for p in paths:
            sts = p.stored("self._t_go")
            if not sts:
                continue
            n_here += 1
            x = sts[-1][0]
            if len(sts) != 1 or not (isinstance(x, ast.BinOp) and isinstance(x.op, ast.Add)):
                res["shape"].append(f"t_go = `{unparse(x)[:110]}`")
                continue
            a, b = x.left, x.right
            cl = _clamp(b, class_const)
            if cl is None:
                a, b = b, a
                cl = _clamp(b, class_const)
            if cl is None:
                res["clamp"].append(f"interval `{unparse(x)[:90]}` is not t_ref + min(max(x, MIN), MAX)")
                continue
            xexpr, lo, hi = cl
            if not (class_const(lo) == cmin and class_const(hi) == cmax and cmin is not None and cmax is not None):
                res["clamp"].append(f"interval clamped to [{unparse(lo)}, {unparse(hi)}]")
            if name == "admit_packet":
                # B.1: t_go = t_pg + ..., with t_pg = the admission time stored on this very path
                tpg = p.env.get("self._t_pg")
                if not (tpg is not None and sem.same(tpg, t) and sem.same(a, t)):
                    res["reference"].append(f"t_go anchored at `{unparse(a)}`, t_pg stored = `{unparse(tpg) if tpg is not None else None}`")
                want = _parse("t_on / self._delta".replace("t_on", fi.params[2]))
            else:
                # B.2: anchored at the unchanged t_pg, old delta = the delta at entry, new delta = the parameter
                if not (sem.same(a, "self._t_pg") and not p.stored("self._t_pg")):
                    res["reference"].append(f"t_go anchored at `{unparse(a)}`")
                want = _parse(f"(self._delta / {fi.params[2]}) * (self._t_go - self._t_pg)")
                have = L.of(p.conds)
                if not (L.holds(have, "self._t_pg is not None") and L.holds(have, "self._t_go is not None") and
                        L.holds(have, f"self.is_open({t})", False)):
                    res["closed"].append(sorted(have))
            got = L.poly(xexpr)
            if repr(got) != repr(L.poly(want)):
                res["formula"].append(f"unclamped interval = {got!r}; equation gives {L.poly(want)!r}")
        n_store += 1 if n_here else 0
        eq = "B.1" if name == "admit_packet" else "B.2"
        loc = fi.loc
        ctx.ob("C19.gate", fi.short(), "t_go:shape", n_here > 0 and not res["shape"],
               f"t_go = t_ref + clamp(...) ({n_here} storing path(s))" if not res["shape"] else res["shape"][0], loc)
        ctx.ob("C19.gate", fi.short(), "t_go:reference", n_here > 0 and not res["reference"] and not res["shape"],
               f"gate opening is scheduled relative to {'the admission time t = t_pg' if eq == 'B.1' else 'the stored t_pg'} (equation {eq})"
               if not res["reference"] else f"{res['reference'][0]}; equation {eq} anchors it at {'t (= t_pg)' if eq == 'B.1' else 'self._t_pg'}", loc)
        ctx.ob("C19.gate", fi.short(), "t_go:clamp", n_here > 0 and not res["clamp"] and not res["shape"],
               f"interval clamped to [{cmin}, {cmax}] s" if not res["clamp"] else res["clamp"][0], loc)
        ctx.ob("C19.gate", fi.short(), "t_go:formula", n_here > 0 and not res["formula"] and not res["shape"] and not res["clamp"],
               f"unclamped interval is equation {eq}" if not res["formula"] else res["formula"][0], loc)
        if name == "update_delta":
            ctx.ob("C19.gate", fi.short(), "rescale-only-closed", n_here > 0 and not res["closed"],
                   "B.2 rescaling happens only while the gate is closed and both times are set" if not res["closed"] else
                   f"t_go is rescaled on a path where the gate is not known to be closed with both times set: {res['closed'][0][:6]}", loc)
            # the new delta is taken over on EVERY normal exit
            dnew = fi.params[2]
            bad = [p for p in paths if not (p.env.get("self._delta") is not None and sem.same(p.env["self._delta"], dnew))]
            ctx.ob("C19.gate", fi.short(), "delta-stored", bool(paths) and not bad,
                   "every normal exit has stored the new delta" if paths and not bad else
                   f"a normal exit is reachable without `self._delta = {dnew}` "
                   f"(line {bad[0].stmt.lineno if bad and bad[0].stmt is not None else '?'}): the gate keeps scheduling with the old delta",
                   loc)
            allp = sym_paths(fi)
            rais = [p for p in allp if p.kind == "raise" and L.holds(L.of(p.conds), f"{dnew} <= 0")]
            okp = all(L.holds(L.of(p.conds), f"{dnew} > 0") for p in paths)
            ctx.ob("C19.gate", fi.short(), "delta-positive", bool(rais) and okp and bool(paths) and all(not p.stores for p in rais),
                   "non-positive delta rejected with an exception before any state is touched", loc)
    if n_store < 2:
        raise AnalysisError(f"C19: stores to GateKeeper._t_go found in {n_store} method(s) (confirmed: 2)")
    # admit: True only after is_open and after both stores; a rejected packet leaves the gate untouched
    fi = gk.methods["admit_packet"]
    t, t_on = fi.params[1], fi.params[2]
    paths = [p for p in sym_paths(fi) if p.kind != "raise"]
    yes = [p for p in paths if p.value is not None and P.try_fold(mod, p.value) is True]
    no = [p for p in paths if p not in yes]
    ctx.ob("C19.gate", fi.short(), "admit:open", bool(yes) and all(L.holds(L.of(p.conds), f"self.is_open({t})") for p in yes),
           "admission requires is_open(t)", fi.loc)
    ctx.ob("C19.gate", fi.short(), "admit:closes", bool(yes) and all(p.stored("self._t_go") and p.stored("self._t_pg") for p in yes),
           "admission stores both t_pg and t_go (gate closes: at most one packet per opening)", fi.loc)
    ctx.ob("C19.gate", fi.short(), "admit:t_on-positive", bool(yes) and all(L.holds(L.of(p.conds), f"{t_on} > 0") for p in yes),
           "non-positive t_on rejected", fi.loc)
    ctx.ob("C19.gate", fi.short(), "admit:reject-keeps-state",
           all(not p.stores and p.value is not None and P.try_fold(mod, p.value) is False for p in no),
           "a packet that is not admitted returns False and leaves t_pg / t_go untouched", fi.loc)
    # is_open(t)  <=>  no opening scheduled  or  t >= t_go - epsilon
    io = gk.methods["is_open"]
    tt = io.params[1]
    got = []
    for p in sym_paths(io):
        if p.kind == "raise":
            continue
        if p.value is None:
            continue            # returns None: falsy
        base = [frozenset()]
        for c, pol in p.conds:
            base = L._and(base, L.dnf(c, pol))
        got += L._and(base, L.dnf(p.value, True))
    want = L.dnf(_parse(f"self._t_go is None or {tt} >= self._t_go - self._T_EPSILON"), True)
    eqv = L.equivalent(got, want)
    if eqv is None:
        raise AnalysisError("C19: GateKeeper.is_open has too many distinct conditions for the truth-table comparison")
    ctx.ob("C19.gate", io.short(), "open-iff-reached", eqv,
           "gate is open iff no opening is scheduled or t >= t_go (epsilon tolerance)" if eqv else
           f"is_open is true under {[sorted(m) for m in got][:3]}; must be equivalent to `t_go is None or t >= t_go - eps`", io.loc)
    eps = P.try_fold(mod, gk.fields["_T_EPSILON"][1])
    ctx.ob("C19.gate", io.short(), "epsilon-small", isinstance(eps, float) and 0 <= eps <= 1e-6, f"epsilon = {eps}", io.loc)
    ctx.floor("C19.gate", 18)


def _clamp(e, const=None):
    """min(max(x, L), H) / max(min(x, H), L) -> (x, L, H); a bound is an operand that `const` evaluates to a number
    (default: a plain name / attribute chain)."""
    const = const or (lambda n: 0 if dotted(n) is not None else None)
    if isinstance(e, ast.Call) and dotted(e.func) in ("min", "max") and len(e.args) == 2 and not e.keywords:
        outer = dotted(e.func)
        for inner, bound in ((e.args[0], e.args[1]), (e.args[1], e.args[0])):
            if isinstance(inner, ast.Call) and dotted(inner.func) in ("min", "max") and dotted(inner.func) != outer and len(inner.args) == 2 \
                    and not inner.keywords and const(bound) is not None:
                for x, b2 in ((inner.args[0], inner.args[1]), (inner.args[1], inner.args[0])):
                    if const(b2) is not None and const(x) is None:
                        return (x, b2, bound) if outer == "min" else (x, bound, b2)
    return None
