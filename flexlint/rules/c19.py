"""C19 - DCC algorithms respect TS 102 687 state, rate and duty-cycle limits.

Decides: internal agreement of the Annex A tables (contiguous bands in state order, rate x T_off = 1000), the
single-step state move and output row of the NEW state, the CBR range check, the LIMERIC update as a formula identity
(polynomial normal form of equations 1-5 incl. the clamps), that every normal exit returns the freshly stored delta,
the gate equations B.1/B.2 as formula identities with clamps [25 ms, 1 s], admit only when open and after storing both
times, rescale only while closed.
Does not decide convergence within four evaluations (follows from one-step + band agreement only informally) nor
floating-point rounding.
"""
from __future__ import annotations

import ast
import re

from ..prog import AnalysisError, ClassInfo, FuncInfo, dotted, unparse
from ..absint import Poly, to_poly
from ..match import pretty

PROP = "C19"
RX = "management.dcc_reactive"
AD = "management.dcc_adaptive"


def norm(s):
    return re.sub(r"\s+", "", s)


def _strip_versions(name: str) -> str:
    return pretty(name)


def run(ctx):
    P = ctx.prog
    ctx.explanation = (
        "Table rules (K11) on the literal Annex A tables (folded from source), guard/bounds rules (K1/K10) on the reactive "
        "state move, and formula-identity rules: the expressions stored into the adaptive filter state and the gate times "
        "are expanded through their local definitions and normalised to polynomials with exact rational coefficients "
        "(min/max as canonical atoms), then compared with clause 5.4 equations 1-5 and Annex B equations B.1/B.2. A formula "
        "identity holds for every input sequence at once.")
    ctx.declined = ["convergence 'within four evaluations' as a run property", "floating point rounding",
                    "comparison with remembered Annex A numbers (internal agreement is checked instead)"]
    tables(ctx)
    reactive(ctx)
    adaptive(ctx)
    gate(ctx)


# ------------------------------------------------------------------------------------------------ tables
def tables(ctx):
    P = ctx.prog
    m = P.module(RX)
    order = m.consts.get("_STATE_ORDER")
    if not isinstance(order, ast.List):
        raise AnalysisError("C19: _STATE_ORDER is not a list literal")
    onames = [dotted(e).split(".")[-1] for e in order.elts]
    st = P.cls(f"{RX}.DccState")
    vals = [st.enum_members.get(n) for n in onames]
    ctx.ob("C19.tables", f"{RX}._STATE_ORDER", "covers-all-states", sorted(onames) == sorted(st.enum_members),
           f"_STATE_ORDER lists {onames}; DccState has {sorted(st.enum_members)}", f"{m.rel}:{order.lineno}")
    ctx.ob("C19.tables", f"{RX}._STATE_ORDER", "ascending", vals == sorted(vals) and len(set(vals)) == len(vals),
           f"state order values {vals} must be strictly ascending (RELAXED .. RESTRICTIVE)", f"{m.rel}:{order.lineno}")
    for tname in ("_TABLE_A1", "_TABLE_A2"):
        t = m.consts.get(tname)
        if not isinstance(t, ast.Dict):
            raise AnalysisError(f"C19: {tname} is not a dict literal")
        rows = []
        for k, v in zip(t.keys, t.values):
            if not (isinstance(v, ast.Call) and dotted(v.func) == "DccStateConfig"):
                raise AnalysisError(f"C19: {tname} row is not a DccStateConfig(...) literal")
            cfg = P.cls(f"{RX}.DccStateConfig")
            fields = [n for n, (ann, _) in cfg.fields.items() if ann is not None]
            args = {fields[i]: P.try_fold(m, a) for i, a in enumerate(v.args)}
            args.update({kw.arg: P.try_fold(m, kw.value) for kw in v.keywords})
            rows.append((dotted(k).split(".")[-1], args, v.lineno))
        con = f"{RX}.{tname}"
        ctx.ob("C19.tables", con, "row-order", [r[0] for r in rows] == onames,
               f"rows {[r[0] for r in rows]} must follow _STATE_ORDER (the band search relies on it)", f"{m.rel}:{t.lineno}")
        ctx.ob("C19.tables", con, "starts-at-0", rows[0][1].get("cbr_min") == 0, f"first band starts at {rows[0][1].get('cbr_min')}",
               f"{m.rel}:{rows[0][2]}")
        ctx.ob("C19.tables", con, "ends-above-1", rows[-1][1].get("cbr_max", 0) > 1.0,
               f"last band ends at {rows[-1][1].get('cbr_max')} (must include CBR = 1.0 in a half-open band)", f"{m.rel}:{rows[-1][2]}")
        for (n1, a1, l1), (n2, a2, l2) in zip(rows, rows[1:]):
            ctx.ob("C19.tables", con, f"contiguous:{n1}->{n2}", a1.get("cbr_max") == a2.get("cbr_min"),
                   f"band {n1} ends at {a1.get('cbr_max')}, band {n2} starts at {a2.get('cbr_min')}", f"{m.rel}:{l2}")
        for n1, a1, l1 in rows:
            r, toff = a1.get("packet_rate_hz"), a1.get("t_off_ms")
            ok = isinstance(r, (int, float)) and isinstance(toff, (int, float)) and abs(r * toff - 1000.0) < 1e-9
            ctx.ob("C19.tables", con, f"rate-toff:{n1}", ok, f"{n1}: packet rate {r} Hz x T_off {toff} ms = {r * toff if ok or r else '?'} (must be 1000)",
                   f"{m.rel}:{l1}")
            ctx.ob("C19.tables", con, f"band-nonempty:{n1}", a1.get("cbr_min") < a1.get("cbr_max"),
                   f"{n1}: [{a1.get('cbr_min')}, {a1.get('cbr_max')})", f"{m.rel}:{l1}")
        rates = [a["packet_rate_hz"] for _, a, _ in rows]
        ctx.ob("C19.tables", con, "rate-monotone", rates == sorted(rates, reverse=True),
               f"packet rates {rates} must not increase with channel load", f"{m.rel}:{t.lineno}")
    ctx.floor("C19.tables", 30)


# ------------------------------------------------------------------------------------------------ reactive
def _cbr_guard(ctx, fi: FuncInfo, fl, node, params: list, rule: str):
    st = fl.state_at(node)
    conds = {norm(pretty(f.xkey)): f.pol for f in st.facts if f.kind == "cond"}
    for p in params:
        lo = conds.get(f"{p}>=0.0") is True or conds.get(f"{p}>=0") is True
        hi = conds.get(f"1.0>={p}") is True or conds.get(f"1>={p}") is True
        if not (lo and hi):
            # loop-literal form:  for name, val in (("p", p), ...): if not 0.0 <= val <= 1.0: raise ValueError
            for n in ast.walk(fi.node):
                if isinstance(n, ast.For) and isinstance(n.iter, ast.Tuple) and n.lineno < getattr(node, "lineno", 10 ** 9):
                    vals = [unparse(e.elts[-1]) for e in n.iter.elts if isinstance(e, ast.Tuple)]
                    tgt = n.target.elts[-1].id if isinstance(n.target, ast.Tuple) else getattr(n.target, "id", None)
                    body_ok = any(isinstance(b, ast.If) and norm(unparse(b.test)) in (f"not0.0<={tgt}<=1.0", f"not0<={tgt}<=1")
                                  and any(isinstance(x, ast.Raise) for x in b.body) for b in n.body)
                    if p in vals and body_ok:
                        lo = hi = True
        ctx.ob(rule, fi.short(), f"range:{p}", lo and hi,
               f"state is only updated after `0.0 <= {p} <= 1.0` was established (else ValueError)" if lo and hi else
               f"the update proceeds without an established `0.0 <= {p} <= 1.0` on every path", f"{fi.module.rel}:{node.lineno}")


def reactive(ctx):
    P = ctx.prog
    fi = P.func(f"{RX}.DccReactive.update")
    fl = ctx.flows.get(fi)
    stores = [n for n in ast.walk(fi.node) if isinstance(n, ast.Assign) and dotted(n.targets[0]) == "self.state"]
    ctx.ob("C19.one-step", fi.short(), "single-store", len(stores) == 1, f"{len(stores)} store(s) to self.state per evaluation", fi.loc)
    if len(stores) != 1:
        return
    s = stores[0]
    st = fl.state_at(s)
    _cbr_guard(ctx, fi, fl, s, ["cbr"], "C19.cbr-range")
    alts = [norm(pretty(unparse(a))) for a in fl.alternatives(s.value, st)]
    base = "_STATE_ORDER.index(self.state)"
    allowed = {f"_STATE_ORDER[{base}]", f"_STATE_ORDER[{base}+1]", f"_STATE_ORDER[{base}-1]"}
    ctx.ob("C19.one-step", fi.short(), "step-set", set(alts) <= allowed and len(alts) >= 2,
           f"new state index is one of {sorted(a.replace(base, 'i') for a in alts)}; must be within {{i-1, i, i+1}}",
           f"{fi.module.rel}:{s.lineno}")
    # direction: +1 only when target above, -1 only when target below
    for n in ast.walk(fi.node):
        if isinstance(n, ast.AugAssign) and dotted(n.target) == "current_idx":
            fs = fl.state_at(n)
            conds = {norm(pretty(f.xkey)): f.pol for f in fs.facts if f.kind == "cond"}
            up = isinstance(n.op, ast.Add)
            tgt_re = r"_STATE_ORDER\.index\((?!self\.state\))[^()]*(\([^()]*\))?[^()]*\)"
            pat = (tgt_re + ">" + re.escape(base)) if up else (re.escape(base) + ">" + tgt_re)
            hit = [k for k, v in conds.items() if v is True and re.fullmatch(pat, k)]
            ctx.ob("C19.one-step", fi.short(), "towards-target:" + ("up" if up else "down"), bool(hit),
                   f"index {'+' if up else '-'}= {unparse(n.value)} only when the target state's index is "
                   f"{'above' if up else 'below'} the current one" + (f" (`{hit[0][:80]}`)" if hit else ""),
                   f"{fi.module.rel}:{n.lineno}")
            ctx.ob("C19.one-step", fi.short(), "unit-step:" + ("up" if up else "down"), P.try_fold(fi.module, n.value) == 1,
                   f"step size {unparse(n.value)}", f"{fi.module.rel}:{n.lineno}")
    # output row of the NEW state
    for c in P.calls_in(fi):
        if dotted(c.func) == "DccReactiveOutput":
            cs = fl.state_at(c)
            kws = {kw.arg: norm(pretty(unparse(fl.expand(kw.value, cs)))) for kw in c.keywords if kw.arg}
            new_state = kws.get("state", "")
            for f_ in ("packet_rate_hz", "t_off_ms"):
                ok = kws.get(f_) == f"self._table[{new_state}].{f_}" and new_state.startswith("_STATE_ORDER[")
                ctx.ob("C19.one-step", fi.short(), f"output:{f_}", ok,
                       f"{f_} = `{kws.get(f_, '')[:90]}`; must be the table row of the state just stored (`{new_state[:60]}`)",
                       f"{fi.module.rel}:{c.lineno}")
    # band search: first match in table order with half-open band
    ts = P.func(f"{RX}.DccReactive._target_state")
    src = norm(unparse(ts.node))
    ctx.ob("C19.one-step", ts.short(), "band-test", "cfg.cbr_min<=cbr<cfg.cbr_max" in src,
           "target band test is `cbr_min <= cbr < cbr_max`", ts.loc)
    ctx.floor("C19.one-step", 8)


# ------------------------------------------------------------------------------------------------ adaptive
def _ren(s: str) -> str:
    s = pretty(s)
    return s.replace("self.parameters.", "p.")


def adaptive(ctx):
    P = ctx.prog
    fi = P.func(f"{AD}.DccAdaptive.update")
    fl = ctx.flows.get(fi)
    mod = fi.module
    rets = [(s, st) for k, s, st in fl.exits if k == "return"]
    if not rets:
        raise AnalysisError("C19: DccAdaptive.update has no return")
    for i, (s, st) in enumerate(rets):
        _cbr_guard(ctx, fi, fl, s, ["cbr_local", "cbr_local_previous"], "C19.cbr-range")
        stored = "self.delta" in st.defs and "self.cbr_its_s" in st.defs
        ctx.ob("C19.limeric", fi.short(), f"return#{i}:fresh", stored and norm(unparse(s.value)) == "self.delta",
               "returns self.delta after both filter states were stored in this evaluation" if stored else
               "a return is reachable before the smoothed CBR / delta were updated (equations 1-4 skipped): the old delta is "
               "returned", f"{mod.rel}:{s.lineno}")
    # eq 1-2: smoothed CBR
    cbr_stores = [n for n in ast.walk(fi.node) if isinstance(n, ast.Assign) and dotted(n.targets[0]) == "self.cbr_its_s"]
    for n in cbr_stores:
        st = fl.state_at(n)
        got = set()
        for a in fl.alternatives(n.value, st):
            got.add(repr(to_poly(P, mod, a, _ren)))
        want_local = repr(to_poly(P, mod, ast.parse("0.5*self.cbr_its_s + 0.5*((cbr_local + cbr_local_previous)/2.0)", mode="eval").body, _ren))
        want_glob = repr(to_poly(P, mod, ast.parse("0.5*self.cbr_its_s + 0.5*((cbr_global + cbr_global_previous)/2.0)", mode="eval").body, _ren))
        ctx.ob("C19.limeric", fi.short(), "eq1-2:cbr-smoothing", got == {want_local, want_glob},
               f"CBR_ITS-S' alternatives {sorted(got)}; clause 5.4 gives 0.5*CBR_ITS-S + 0.5*(CBR + CBR_prev)/2 with the global "
               f"pair when available", f"{mod.rel}:{n.lineno}")
    # eq 3: offset with clamps
    off_defs = [n for n in ast.walk(fi.node) if isinstance(n, ast.Assign) and dotted(n.targets[0]) == "delta_offset"]
    diffp = None
    for n in off_defs:
        st = fl.state_at(n)
        x = fl.expand(n.value, st)
        conds = {norm(pretty(f.xkey)): f.pol for f in st.facts if f.kind == "cond"}
        px = repr(to_poly(P, mod, x, _ren))
        up = repr(to_poly(P, mod, ast.parse("min(p.beta*(p.cbr_target - CBR), p.delta_up_max)", mode="eval").body, _ren))
        dn = repr(to_poly(P, mod, ast.parse("max(p.beta*(p.cbr_target - CBR), p.delta_down_max)", mode="eval").body, _ren))
        # CBR stands for the freshly stored smoothed value: substitute its text
        cur = None
        for a in [repr(to_poly(P, mod, fl.expand(ast.parse("self.cbr_its_s", mode="eval").body, st), _ren))]:
            cur = a
        kind = "up" if "min(" in px else "down"
        ctx.ob("C19.limeric", fi.short(), f"eq3:offset-{kind}", ("p.beta" in px and "p.cbr_target" in px and
                                                                  (("p.delta_up_max" in px and kind == "up") or
                                                                   ("p.delta_down_max" in px and kind == "down"))),
               f"delta_offset ({kind}) = {px[:160]}", f"{mod.rel}:{n.lineno}")
        sign = [k for k, v in conds.items() if "p.cbr_target-" in k.replace("self.parameters.", "p.") and ">0" in k]
        want_pol = kind == "up"
        ok = any(conds[k] is want_pol for k in sign) or (kind == "down" and any("0.0>=" in k or "0>=" in k for k in conds))
        ctx.ob("C19.limeric", fi.short(), f"eq3:branch-{kind}", ok,
               f"{'min with delta_up_max' if kind == 'up' else 'max with delta_down_max'} is applied on the "
               f"{'positive' if kind == 'up' else 'non-positive'} side of (CBR_target - CBR_ITS-S)", f"{mod.rel}:{n.lineno}")
    # eq 4 + clamps eq 5
    dstores = [n for n in ast.walk(fi.node) if isinstance(n, ast.Assign) and dotted(n.targets[0]) == "self.delta"]
    main = [n for n in dstores if "alpha" in unparse(n.value)]
    ctx.ob("C19.limeric", fi.short(), "eq4:present", len(main) == 1, f"{len(main)} store(s) implementing equation 4", fi.loc)
    for n in main:
        got = repr(to_poly(P, mod, n.value, _ren))
        want = repr(to_poly(P, mod, ast.parse("(1.0 - p.alpha)*self.delta + delta_offset", mode="eval").body, _ren))
        ctx.ob("C19.limeric", fi.short(), "eq4:formula", got == want,
               f"delta' = {got}; clause 5.4 eq. 4: (1 - alpha)*delta + delta_offset", f"{mod.rel}:{n.lineno}")
    lo, hi = _clamp_sequence(fi, "self.delta")
    ctx.ob("C19.delta-clamp", fi.short(), "upper", norm(_ren(hi or "")) == "p.delta_max",
           f"value returned is bounded above by `{hi}` (needs p.delta_max)", fi.loc)
    ctx.ob("C19.delta-clamp", fi.short(), "lower", norm(_ren(lo or "")) == "p.delta_min",
           f"value returned is bounded below by `{lo}` (needs p.delta_min)", fi.loc)
    ctx.floor("C19.limeric", 7)


def _clamp_sequence(fi: FuncInfo, var: str):
    """Symbolic [lo, hi] of `var` at the end of the top-level statement sequence (clamp idioms only)."""
    lo = hi = None
    for st in fi.node.body:
        if isinstance(st, ast.Assign) and any(dotted(t) == var for t in st.targets):
            lo = hi = None
            v = st.value
            if isinstance(v, ast.Call) and dotted(v.func) in ("min", "max") and len(v.args) == 2:
                outer = dotted(v.func)
                for inner, b in ((v.args[0], v.args[1]), (v.args[1], v.args[0])):
                    if isinstance(inner, ast.Call) and dotted(inner.func) in ("min", "max") and dotted(inner.func) != outer:
                        ib = [a for a in inner.args if not (isinstance(a, ast.Call))]
                        b2 = unparse(ib[-1]) if ib else None
                        if outer == "min":
                            hi, lo = unparse(b), b2
                        else:
                            lo, hi = unparse(b), b2
        elif isinstance(st, ast.If) and not st.orelse and len(st.body) == 1 and isinstance(st.body[0], ast.Assign) \
                and dotted(st.body[0].targets[0]) == var and isinstance(st.test, ast.Compare) and len(st.test.ops) == 1 \
                and dotted(st.test.left) == var:
            b = unparse(st.test.comparators[0])
            if unparse(st.body[0].value) == b:
                if isinstance(st.test.ops[0], (ast.Gt, ast.GtE)):
                    hi = b
                elif isinstance(st.test.ops[0], (ast.Lt, ast.LtE)):
                    lo = b
        else:
            for n in ast.walk(st):
                if isinstance(n, (ast.Assign, ast.AugAssign)):
                    tg = n.targets if isinstance(n, ast.Assign) else [n.target]
                    if any(dotted(t) == var for t in tg):
                        lo = hi = None
    return lo, hi


# ------------------------------------------------------------------------------------------------ gate keeper
def gate(ctx):
    P = ctx.prog
    gk = P.cls(f"{AD}.GateKeeper")
    mod = gk.module
    cmin = P.try_fold(mod, gk.fields["GATE_OPEN_MIN_INTERVAL_S"][1])
    cmax = P.try_fold(mod, gk.fields["GATE_OPEN_MAX_INTERVAL_S"][1])
    ctx.ob("C19.gate", gk.qual[10:], "constants", cmin == 0.025 and cmax == 1.0,
           f"gate interval limits [{cmin}, {cmax}] s; TS 102 687 Annex B: [0.025, 1.0]", f"{mod.rel}:{gk.node.lineno}")
    spec = {
        "admit_packet": ("t", "t_on / self._delta"),
        "update_delta": ("self._t_pg", "(self._delta_old / delta_new) * (self._t_go - self._t_pg)"),
    }
    n_store = 0
    for name, (ref, inner) in spec.items():
        fi = gk.methods[name]
        fl = ctx.flows.get(fi)
        for n in ast.walk(fi.node):
            if isinstance(n, ast.Assign) and dotted(n.targets[0]) == "self._t_go":
                n_store += 1
                st = fl.state_at(n)
                x = fl.expand(n.value, st)
                ok_shape = isinstance(x, ast.BinOp) and isinstance(x.op, ast.Add)
                ctx.ob("C19.gate", fi.short(), "t_go:shape", ok_shape, f"t_go = `{pretty(unparse(x))[:110]}` must be t_ref + clamp(...)",
                       f"{mod.rel}:{n.lineno}")
                if not ok_shape:
                    continue
                a, b = x.left, x.right
                if isinstance(a, ast.Call):
                    a, b = b, a
                tref = norm(pretty(unparse(a)))
                ctx.ob("C19.gate", fi.short(), "t_go:reference", tref == norm(ref),
                       f"gate opening is scheduled relative to `{tref}`; equation {'B.1' if name == 'admit_packet' else 'B.2'} "
                       f"anchors it at `{ref}`", f"{mod.rel}:{n.lineno}")
                # clamp structure
                cl = _clamp(b)
                if cl is None:
                    ctx.ob("C19.gate", fi.short(), "t_go:clamp", False, f"interval `{pretty(unparse(b))[:90]}` is not min(max(x, MIN), MAX)",
                           f"{mod.rel}:{n.lineno}")
                    continue
                xexpr, lo, hi = cl
                ctx.ob("C19.gate", fi.short(), "t_go:clamp", norm(unparse(lo)).endswith("GATE_OPEN_MIN_INTERVAL_S") and
                       norm(unparse(hi)).endswith("GATE_OPEN_MAX_INTERVAL_S"),
                       f"interval clamped to [{unparse(lo)}, {unparse(hi)}]", f"{mod.rel}:{n.lineno}")
                # a local that snapshots self._delta BEFORE it is overwritten is the "old delta" of equation B.2
                olds = set()
                for d in fl.defs.values():
                    if d.kind == "assign" and d.value is not None and norm(unparse(d.value)) == "self._delta" and "." not in d.name:
                        later_store = any(isinstance(x, ast.Assign) and dotted(x.targets[0]) == "self._delta" and
                                          x.lineno > d.stmt.lineno for x in ast.walk(fi.node))
                        if later_store:
                            olds.add(d.name)
                ren = lambda s, _o=olds: "DELTA_OLD" if pretty(s) in _o else pretty(s)
                got = to_poly(P, mod, xexpr, ren)
                if name == "admit_packet":
                    want = to_poly(P, mod, ast.parse("t_on / self._delta", mode="eval").body, ren)
                else:
                    want = to_poly(P, mod, ast.parse("(DELTA_OLD / delta_new) * (self._t_go - self._t_pg)", mode="eval").body, ren)
                ctx.ob("C19.gate", fi.short(), "t_go:formula", repr(got) == repr(want),
                       f"unclamped interval = {got!r}; equation gives {want!r}", f"{mod.rel}:{n.lineno}")
                if name == "update_delta":
                    conds = {norm(pretty(f.xkey)): f.pol for f in st.facts if f.kind == "cond"}
                    closed = any(("self.is_open(t)" in k) and v is False for k, v in conds.items()) or \
                        any("self._t_pgisNoneorself._t_goisNoneorself.is_open(t)" in k and v is False for k, v in conds.items())
                    ctx.ob("C19.gate", fi.short(), "rescale-only-closed", closed,
                           "B.2 rescaling happens only while the gate is closed and both times are set", f"{mod.rel}:{n.lineno}")
    if n_store < 2:
        raise AnalysisError(f"C19: {n_store} stores to GateKeeper._t_go found (confirmed: 2)")
    # admit: True only after is_open and after both stores
    fi = gk.methods["admit_packet"]
    fl = ctx.flows.get(fi)
    for k, s, st in fl.exits:
        if k == "return" and P.try_fold(mod, s.value) is True:
            conds = {norm(pretty(f.xkey)): f.pol for f in st.facts if f.kind == "cond"}
            ctx.ob("C19.gate", fi.short(), "admit:open", conds.get("self.is_open(t)") is True, "admission requires is_open(t)",
                   f"{mod.rel}:{s.lineno}")
            ctx.ob("C19.gate", fi.short(), "admit:closes", "self._t_go" in st.defs and "self._t_pg" in st.defs,
                   "admission stores both t_pg and t_go (gate closes: at most one packet per opening)", f"{mod.rel}:{s.lineno}")
            ctx.ob("C19.gate", fi.short(), "admit:t_on-positive", conds.get("t_on>0.0") is True or conds.get("0.0>=t_on") is False
                   or conds.get("t_on>0") is True, "non-positive t_on rejected", f"{mod.rel}:{s.lineno}")
    io = gk.methods["is_open"]
    src = norm(unparse(io.node))
    ctx.ob("C19.gate", io.short(), "open-iff-reached", "returnt>=self._t_go-self._T_EPSILON" in src and "ifself._t_goisNone:returnTrue" in src,
           "gate is open iff no opening is scheduled or t >= t_go (epsilon tolerance)", io.loc)
    eps = P.try_fold(mod, gk.fields["_T_EPSILON"][1])
    ctx.ob("C19.gate", io.short(), "epsilon-small", isinstance(eps, float) and 0 <= eps <= 1e-6, f"epsilon = {eps}", io.loc)
    ud = gk.methods["update_delta"]
    fl = ctx.flows.get(ud)
    raises = [(s, st) for k, s, st in fl.exits if k == "raise"]
    ok = any(any(norm(pretty(f.xkey)) in ("0.0>=delta_new", "0>=delta_new") and f.pol for f in st.facts) for s, st in raises)
    ctx.ob("C19.gate", ud.short(), "delta-positive", ok, "non-positive delta rejected with ValueError", ud.loc)
    ctx.floor("C19.gate", 14)


def _clamp(e):
    """min(max(x, L), H) / max(min(x, H), L) -> (x, L, H)"""
    if isinstance(e, ast.Call) and dotted(e.func) in ("min", "max") and len(e.args) == 2:
        outer = dotted(e.func)
        for inner, bound in ((e.args[0], e.args[1]), (e.args[1], e.args[0])):
            if isinstance(inner, ast.Call) and dotted(inner.func) in ("min", "max") and dotted(inner.func) != outer and len(inner.args) == 2:
                # the inner bound is the argument that is a plain name / attribute constant
                cands = [(inner.args[0], inner.args[1]), (inner.args[1], inner.args[0])]
                for x, b2 in cands:
                    if dotted(b2) is not None and (dotted(b2).isupper() or dotted(b2).split(".")[-1].isupper()):
                        return (x, b2, bound) if outer == "min" else (x, bound, b2)
    return None
