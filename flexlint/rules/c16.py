"""C16 - LDM operations are atomic under concurrent providers, consumers and maintenance.

Decides: lockset discipline (lockset: every access to the in-memory store dictionary, the id counter, the two
registries, the subscription list and the last-notified map - and every write of the two reactive stamps - holds the
owning lock; the maintenance-thread wrapper delegates every store operation to super() under data_containers_lock);
atomic check-then-act sections (atomic: within a function no read of a guarded field in one critical section followed
by its write in another section of the same lock); snapshot discipline (snapshot: no method of the store / service
families returns the live shared container or a live view of it, and a loop over the live container contains no
mutation of it that is not followed at once by return / break / raise); lock order (order: acquired-while-held graph
acyclic, re-acquisition only of RLocks, and every consumer callback invoked with no LDM lock held at the call nor
possibly inherited from a caller).
Does not decide linearizability of multi-step interface operations (registration check and insertion are two critical
sections by design), the TinyDB back-end, nor absence of exceptions as a value property.
"""
from __future__ import annotations

import ast

from ..prog import AnalysisError, dotted, unparse
from ..locks import LockAnalysis, MUTATORS
from . import lockrules as LR

PROP = "C16"
DB = "facilities.local_dynamic_map.dictionary_database.DictionaryDataBase"
SV = "facilities.local_dynamic_map.ldm_service.LDMService"
SVR = "facilities.local_dynamic_map.ldm_service_reactive.LDMServiceReactive"
MTR = "facilities.local_dynamic_map.ldm_maintenance_reactive.LDMMaintenanceReactive"
MTT = "facilities.local_dynamic_map.ldm_maintenance_thread.LDMMaintenanceThread"

TABLE = [
    (DB, "database", "DictionaryDataBase._lock", "all", "store dictionary is iterated by queries/GC while providers insert and delete"),
    (DB, "_next_id", "DictionaryDataBase._lock", "all", "identifier allocation is a read-modify-write"),
    (SV, "data_provider_its_aid", "LDMService._lock", "all", "provider registry"),
    (SV, "data_consumer_its_aid", "LDMService._lock", "all", "consumer registry"),
    (SV, "subscriptions", "LDMService._lock", "all", "subscription list is iterated by attendance while consumers subscribe"),
    (SV, "last_checked_subscriptions_time", "LDMService._lock", "all", "last-notified map: read-test-write per subscription"),
    (SVR, "last_subscription_time", "LDMServiceReactive.lock", "write", "reactive attendance stamp"),
    (MTR, "last_trash_collection_time", "LDMMaintenanceReactive.lock", "write", "reactive GC stamp"),
]
SHARED_FIELDS = {(DB, "database"), (SV, "data_provider_its_aid"), (SV, "data_consumer_its_aid"), (SV, "subscriptions"),
                 (SV, "last_checked_subscriptions_time")}


def run(ctx):
    P = ctx.prog
    ctx.explanation = (
        "Lockset / snapshot analysis (K6) of the in-memory LDM: every access to the store dictionary, the id counter, "
        "the two registries, the subscription list and the last-notified map must hold the owning RLock; a read followed "
        "by a write of one field inside a function must stay in one critical section; live shared containers must never "
        "be returned, nor iterated while mutated; the maintenance-thread wrapper must hold its lock around every "
        "delegated store operation; the lock graph must be acyclic and consumer callbacks run with no LDM lock held. "
        "Locksets are schedule independent: one evaluation covers every interleaving.")
    ctx.declined = ["linearizability of multi-step IF.LDM operations (registration check and insertion are two critical "
                    "sections by design)", "TinyDB back-end", "absence of exceptions as a value property"]
    la = LockAnalysis(ctx)
    LR.check_lockset(ctx, la, TABLE, "C16.lockset")
    ctx.floor("C16.lockset", 30, "guarded accesses")
    LR.check_single_section(ctx, la, TABLE, "C16.atomic")
    ctx.floor("C16.atomic", 15)

    # ---- snapshots: never hand out / iterate-while-mutating the live container
    for cls_name, field in sorted(SHARED_FIELDS):
        ci = P.cls(cls_name)
        family = [ci] + ci.all_subclasses()
        for c in family:
            for m in c.methods.values():
                fl = la.flow(m)
                for n in ast.walk(m.node):
                    if isinstance(n, ast.Return) and n.value is not None and id(n) in fl.before:
                        x = fl.expand(n.value, fl.before[id(n)])
                        u = unparse(x)
                        live = u == f"self.{field}" or u in (f"self.{field}.values()", f"self.{field}.items()",
                                                             f"self.{field}.keys()")
                        if f"self.{field}" in u:
                            ctx.ob("C16.snapshot", m.short(), f"return:{field}:{_ord(m, n)}", not live,
                                   f"returns `{u[:70]}`" + (" - the live shared container escapes the lock" if live else
                                                            " (a copy / element)"), f"{m.module.rel}:{n.lineno}")
                    if isinstance(n, ast.For) and id(n) in fl.before:
                        it = unparse(fl.expand(n.iter, fl.before[id(n)]))
                        if it.startswith(f"self.{field}") and not it.startswith(f"self.{field}.copy("):
                            # iteration over the live container: any mutation in the body must leave the loop at once
                            bad = None
                            for b in ast.walk(n):
                                mut = None
                                if isinstance(b, ast.Delete):
                                    for t in b.targets:
                                        if isinstance(t, ast.Subscript) and dotted(t.value) == f"self.{field}":
                                            mut = b
                                elif isinstance(b, ast.Expr) and isinstance(b.value, ast.Call) and \
                                        isinstance(b.value.func, ast.Attribute) and b.value.func.attr in MUTATORS and \
                                        dotted(b.value.func.value) == f"self.{field}":
                                    mut = b
                                elif isinstance(b, ast.Assign) and any(isinstance(t, ast.Subscript) and
                                                                       dotted(t.value) == f"self.{field}" for t in b.targets):
                                    mut = b
                                if mut is not None and not _followed_by_exit(fl, mut):
                                    bad = mut
                            ctx.ob("C16.snapshot", m.short(), f"iterate-live:{field}:{_ord(m, n)}", bad is None,
                                   f"loop over live `{it[:50]}`" + (f": mutation at line {bad.lineno} is not followed by "
                                                                     f"return/break (dictionary changed size during iteration)"
                                                                     if bad is not None else " (no mutation continues the loop)"),
                                   f"{m.module.rel}:{n.lineno}")
    ctx.floor("C16.snapshot", 6)

    # ---- maintenance-thread wrapper: every delegated store operation under data_containers_lock
    mt = P.cls(MTT)
    for m in mt.methods.values():
        if m.name in ("__init__", "run"):
            continue
        fl = la.flow(m)
        for c in P.calls_in(m):
            if isinstance(c.func, ast.Attribute) and isinstance(c.func.value, ast.Call) and \
                    isinstance(c.func.value.func, ast.Name) and c.func.value.func.id == "super":
                held = fl.state_at(c).locks
                ctx.ob("C16.lockset", m.short(), f"super().{c.func.attr}", "LDMMaintenanceThread.data_containers_lock" in held,
                       f"delegation super().{c.func.attr}() with locks {list(held)}", f"{m.module.rel}:{c.lineno}")

    # ---- lock order + callbacks outside locks
    classes = {"DictionaryDataBase", "LDMService", "LDMServiceReactive", "LDMServiceThreads", "LDMMaintenance",
               "LDMMaintenanceReactive", "LDMMaintenanceThread", "InterfaceLDM3", "InterfaceLDM4"}
    LR.check_order(ctx, la, classes, "C16.order")
    n = 0
    for fi in P.iter_funcs():
        if fi.cls is None or fi.cls.name not in classes:
            continue
        for c in P.calls_in(fi):
            d = dotted(c.func) or ""
            if d.endswith(".callback") or d == "callback":
                n += 1
                held = la.held(fi, c)
                inherited = {k: w for k, w in la.entry_locks().get(fi.qual, {}).items() if k.split(".")[0] in classes}
                ctx.ob("C16.order", fi.short(), f"callback-outside-locks:{n}", not held and not inherited,
                       f"consumer callback `{d}` invoked with locks {list(held) or 'none'} held here"
                       + (f" and {sorted(inherited)} possibly held by a caller ({next(iter(inherited.values()))}): a callback that calls back "
                          "into the LDM self-deadlocks on a plain Lock" if inherited else ", none inherited from any caller"),
                       f"{fi.module.rel}:{c.lineno}")
    if n == 0:
        raise AnalysisError("C16: no consumer callback invocation found")
    ctx.extra["lock_kinds"] = {k: v for k, v in la.lock_kinds.items() if k.split('.')[0] in classes}


def _ord(m, n) -> int:
    same = [x for x in ast.walk(m.node) if type(x) is type(n)]
    return same.index(n)


def _followed_by_exit(fl, stmt) -> bool:
    par = fl.parent.get(id(stmt))
    for fld in ("body", "orelse", "finalbody"):
        lst = getattr(par, fld, None)
        if isinstance(lst, list) and stmt in lst:
            i = lst.index(stmt)
            rest = lst[i + 1:]
            return bool(rest) and isinstance(rest[0], (ast.Return, ast.Break, ast.Raise))
    return False
