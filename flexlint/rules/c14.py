"""C14 - LDM subscriptions notify exactly the matching data, at the requested cadence.

Decides: the guards in front of the consumer callback (non-empty result, multiplicity, interval, consumer still
registered); what the callback is handed (the search for this subscription's types/filter, in the requested order);
bookkeeping of the two subscription structures; what unsubscribe removes; the validation decision table; the reactive
trigger.  Does not decide cadence as timing, nor isolation between subscriptions over histories.
"""
from __future__ import annotations

import ast
import re

from ..prog import AnalysisError, ClassInfo, FuncInfo, dotted, unparse
from ..match import pretty, CallSummaries

PROP = "C14"
LDM = "facilities.local_dynamic_map"
SV = f"{LDM}.ldm_service.LDMService"
IF4 = f"{LDM}.if_ldm_4.InterfaceLDM4"


def norm(s):
    return re.sub(r"\s+", "", s)


def run(ctx):
    P = ctx.prog
    ctx.explanation = (
        "Guard rules (K1) on the single place where a consumer callback is invoked and on the call chain that leads to it "
        "(attend_subscriptions -> process_notifications), provenance rules on the data handed over, paired-update rules on "
        "the subscription list / last-notified map, a decision table for the seven validators of subscribe requests "
        "(validator false => matching result code, storing only after all seven), and the reactive trigger on add. "
        "Path-universal, hence valid for every interleaving of subscribe / unsubscribe / add the single-threaded walk can take.")
    ctx.declined = ["cadence as real time", "isolation between subscriptions over histories"]
    sv = P.cls(SV)
    att = sv.methods["attend_subscriptions"]
    pn = sv.methods["process_notifications"]
    fl = ctx.flows.get(att)
    calls = [c for c in P.calls_in(att) if isinstance(c.func, ast.Attribute) and c.func.attr == "process_notifications"]
    if len(calls) != 1:
        raise AnalysisError(f"C14: attend_subscriptions calls process_notifications {len(calls)} times (confirmed: 1)")
    c = calls[0]
    st = fl.state_at(c)
    conds = {norm(pretty(f.xkey)): f.pol for f in st.facts if f.kind == "cond"}
    nonempty = conds.get("self.search_data(subscription)") is True
    ctx.ob("C14.notify-guards", att.short(), "non-empty", nonempty, "no notification for an empty result", f"{att.module.rel}:{c.lineno}")
    mult = any((not v) and "multiplicityisnotNoneand" in k and "multiplicity>len(self.search_data(subscription))" in k for k, v in conds.items())
    ctx.ob("C14.notify-guards", att.short(), "multiplicity", mult,
           "notification only when at least `multiplicity` objects match" if mult else
           "the multiplicity test `multiplicity > len(result) -> skip` no longer guards the notification", f"{att.module.rel}:{c.lineno}")
    reg = any(v and "application_idinself.get_data_consumer_its_aid()" in k for k, v in conds.items()) or \
        any((not v) and "application_idinself.get_data_consumer_its_aid()" in k and False for k, v in conds.items())
    reg = reg or any((v is False) and k.endswith("notinself.get_data_consumer_its_aid()") for k, v in conds.items())
    ctx.ob("C14.notify-guards", att.short(), "consumer-registered", reg,
           "a notification is produced only for a consumer that is still registered" if reg else
           "attend_subscriptions tests the consumer registry only AFTER process_notifications: a consumer that deregistered is "
           "called back once more before its subscription is dropped", f"{att.module.rel}:{c.lineno}")
    # data handed to the notification
    arg = norm(pretty(unparse(fl.expand(c.args[1], st)))) if len(c.args) > 1 else ""
    alts = {norm(pretty(unparse(a))) for a in fl.alternatives(c.args[1], st)} if len(c.args) > 1 else set()
    ok = alts <= {"self.search_data(subscription)",
                  "self.order_search_results(self.search_data(subscription),subscription.subscription_request.order)[0]"} and alts
    ctx.ob("C14.notify-data", att.short(), "result-of-this-subscription", bool(ok),
           f"data notified = {sorted(a[:90] for a in alts)}: the search for this subscription, ordered by its own order tuple",
           f"{att.module.rel}:{c.lineno}")
    sd = sv.methods["search_data"]
    src = norm(unparse(sd.node))
    ok = all(f"subscription.subscription_request.{x}" in src for x in ("application_id", "data_object_type", "priority", "order", "filter")) \
        and "returnself.ldm_maintenance.data_containers.search(data_request)" in src
    ctx.ob("C14.notify-data", sd.short(), "request-built-from-subscription", ok,
           "the search request is built from this subscription's types, filter, order and priority", sd.loc)
    fsd = ctx.flows.get(sd)
    for k_, s_, st_ in fsd.exits:
        if k_ == "return":
            u = norm(pretty(unparse(fsd.expand(s_.value, st_))))
            okr = u.startswith("self.ldm_maintenance.data_containers.search(RequestDataObjectsReq(subscription.subscription_request.application_id,"
                               "subscription.subscription_request.data_object_type,")
            ctx.ob("C14.notify-data", sd.short(), f"return@{s_.lineno - sd.node.lineno}", okr,
                   "every result handed to a notification comes from the back-end search for this subscription's types and filter" if okr else
                   f"a subscription result is produced by `{u[:90]}`: it bypasses the type / filter selection of this subscription",
                   f"{sd.module.rel}:{s_.lineno}")
    # process_notifications: interval test, stamp advanced exactly when notifying, callback outside the lock
    fl2 = ctx.flows.get(pn)
    cbs = [x for x in P.calls_in(pn) if (dotted(x.func) or "").endswith(".callback")]
    if len(cbs) != 1:
        raise AnalysisError(f"C14: {len(cbs)} callback invocations in process_notifications (confirmed: 1)")
    cb = cbs[0]
    stc = fl2.state_at(cb)
    condc = {norm(pretty(f.key)): f.pol for f in stc.facts if f.kind == "cond"}
    interval = any((v is False) and k == "notify_timeisnotNoneandlast_checked+notify_time>current_time" for k, v in condc.items())
    ctx.ob("C14.notify-guards", pn.short(), "interval", interval,
           "callback only when last_notified + notify_time <= now" if interval else "the interval test no longer guards the callback",
           f"{pn.module.rel}:{cb.lineno}")
    stamped = any(f.kind == "call" and norm(pretty(f.key)) == "__setitem__(self.last_checked_subscriptions_time,subscription)" for f in stc.facts)
    ctx.ob("C14.bookkeeping", pn.short(), "stamp-when-notifying", stamped,
           "the last-notified time is advanced on the path that invokes the callback", f"{pn.module.rel}:{cb.lineno}")
    # no stamp on the skipping path (other than the initial one)
    for k, s_, st_ in fl2.exits:
        if k == "return" and s_.value is None:
            ds = [fl2.defs[i] for i in st_.defs.get("self.last_checked_subscriptions_time[]", ())]
            late = [d for d in ds if "last_checkedisNone" not in "".join(norm(pretty(f.key)) for f in fl2.before[id(d.stmt)].facts if f.kind == "cond" and f.pol)]
            ctx.ob("C14.bookkeeping", pn.short(), "no-stamp-when-skipping", not late,
                   "a skipped notification does not advance the last-notified time (so it fires at the first attendance after the interval)"
                   if not late else "the last-notified time is advanced although no notification is sent: the interval restarts at every attendance",
                   f"{pn.module.rel}:{s_.lineno}")
    kw = {k_.arg: k_.value for k_ in cb.args[0].keywords} if cb.args and isinstance(cb.args[0], ast.Call) else {}
    ctx.ob("C14.notify-data", pn.short(), "callback-payload", norm(unparse(kw.get("data_objects", ast.Constant(None)))) == "valid_search_result"
           and "application_id" in kw, "the callback receives the search result it was handed and the subscriber's application id",
           f"{pn.module.rel}:{cb.lineno}")
    ctx.ob("C14.notify-data", pn.short(), "own-callback", (dotted(cb.func) or "") == "subscription.callback",
           "the callback invoked is the one stored with this subscription", f"{pn.module.rel}:{cb.lineno}")
    # bookkeeping pairs
    st_new = sv.methods["store_new_subscription_petition"]
    src = norm(unparse(st_new.node))
    ctx.ob("C14.bookkeeping", st_new.short(), "paired-insert", "self.subscriptions.append(new_subscription)" in src and
           "self.last_checked_subscriptions_time[new_subscription]=" in src, "subscription list and last-notified map are filled together", st_new.loc)
    ctx.ob("C14.bookkeeping", st_new.short(), "id", "returnhash(new_subscription.subscription_request)" in src,
           "the subscription id is the hash the unsubscribe path compares with", st_new.loc)
    rm = sv.methods["remove_subscription"]
    src = norm(unparse(rm.node))
    ctx.ob("C14.bookkeeping", rm.short(), "paired-remove", "self.subscriptions.remove(subscription)" in src and
           "self.last_checked_subscriptions_time.pop(subscription,None)" in src, "both structures are cleaned together", rm.loc)
    ds = sv.methods["delete_subscription"]
    fl3 = ctx.flows.get(ds)
    for x in P.calls_in(ds):
        if isinstance(x.func, ast.Attribute) and x.func.attr == "remove_subscription":
            pass
    src = norm(unparse(ds.node))
    ctx.ob("C14.unsubscribe", ds.short(), "only-matching-id", "ifhash(subscription.subscription_request)==subscription_id:to_remove.add(subscription)" in src
           and "forsubscriptioninto_remove:self.remove_subscription(subscription)" in src and "returnbool(to_remove)" in src,
           "exactly the subscriptions whose id equals the argument are removed; the result tells whether any was", ds.loc)
    # removal after deregistration
    ctx.ob("C14.unsubscribe", att.short(), "deregistered-removed", "subscriptions_to_remove.add(subscription)" in norm(unparse(att.node)) and
           "self.remove_subscription(subscription)" in norm(unparse(att.node)), "subscriptions of deregistered consumers are dropped", att.loc)

    # ---- validation decision table
    if4 = P.cls(IF4)
    v = if4.methods["validate_subscribe_data_consumer"]
    flv = ctx.flows.get(v)
    table = {"is_valid_its_aid": "INVALID_ITSA_ID", "is_valid_data_object_type": "INVALID_DATA_OBJECT_TYPE", "is_valid_priority": "INVALID_PRIORITY",
             "is_valid_order": "INVALID_ORDER", "is_valid_filter": "INVALID_FILTER", "is_valid_notify_time": "INVALID_NOTIFICATION_INTERVAL",
             "is_valid_multiplicity": "INVALID_MULTIPLICITY"}
    seen = {}
    for k, s_, st_ in flv.exits:
        if k != "return":
            continue
        if isinstance(s_.value, ast.Constant) and s_.value.value is None:
            conds = {norm(pretty(f.key)): f.pol for f in st_.facts if f.kind == "cond"}
            for val in table:
                passed = any(val + "(" in kk and ((vv is True and not kk.startswith("not")) or (vv is False and "isnotNoneandnot" in kk)
                                                  or (vv is False and kk.startswith("not"))) for kk, vv in conds.items()) or \
                    any(val + "(" in kk for kk in conds)
                ctx.ob("C14.validation", v.short(), f"accept-needs:{val}", passed,
                       f"a request is accepted only after {val} was evaluated", f"{v.module.rel}:{s_.lineno}")
            continue
        if not isinstance(s_.value, ast.Call):
            continue
        code = [unparse(a) for a in s_.value.args if "SubscribeDataobjectsResult." in unparse(a)]
        par = flv.parent.get(id(s_))
        test = norm(unparse(par.test)) if isinstance(par, ast.If) else ""
        for val, want in table.items():
            if val + "(" in test:
                seen[val] = code[0].split(".")[-1] if code else None
                ctx.ob("C14.validation", v.short(), f"code:{val}", seen[val] == want and (test.startswith("not") or ("notself." + val) in test),
                       f"a request failing {val} is refused with {seen[val]} (must be {want})", f"{v.module.rel}:{s_.lineno}")
    ctx.ob("C14.validation", v.short(), "all-seven", set(seen) == set(table), f"validators consulted: {sorted(seen)}", v.loc)
    sub = if4.methods["subscribe_data_consumer"]
    fls = ctx.flows.get(sub)
    for x in P.calls_in(sub):
        if isinstance(x.func, ast.Attribute) and x.func.attr == "store_subscription_info":
            conds = {norm(pretty(f.xkey)): f.pol for f in fls.state_at(x).facts if f.kind == "cond"}
            ok = conds.get("self.validate_subscribe_data_consumer(subscribe_data_consumer)isNone") is True
            ctx.ob("C14.validation", sub.short(), "store-after-validation", ok, "a subscription is stored only when validation returned None",
                   f"{sub.module.rel}:{x.lineno}")
    # validators: ranges
    for name, frag in (("is_valid_priority", "0<=priority<=255"), ("is_valid_multiplicity", "0<=multiplicity<=255"),
                       ("is_valid_notify_time", "0<=notify_time.timestamp_its<=4398046511103"),
                       ("is_valid_its_aid", "application_idinself.ldm_service.get_data_consumer_its_aid()"),
                       ("is_valid_data_object_type", "inDATA_OBJECT_TYPE_ID")):
        m = if4.methods[name]
        ctx.ob("C14.validation", m.short(), "predicate", frag in norm(unparse(m.node)), f"{name}: `{frag}`", m.loc)
    ctx.floor("C14.validation", 20)
    # ---- unsubscribe interface
    un = if4.methods["unsubscribe_data_consumer"]
    flu = ctx.flows.get(un)
    for x in P.calls_in(un):
        if isinstance(x.func, ast.Attribute) and x.func.attr == "delete_subscription":
            conds = {norm(pretty(f.xkey)): f.pol for f in flu.state_at(x).facts if f.kind == "cond"}
            ok = conds.get("unsubscribe_data_consumer.application_idinself.ldm_service.get_data_consumer_its_aid()") is True
            ctx.ob("C14.unsubscribe", un.short(), "registered-consumer", ok, "only a registered consumer can unsubscribe", f"{un.module.rel}:{x.lineno}")
            ctx.ob("C14.unsubscribe", un.short(), "by-id", norm(unparse(x.args[0])) == "unsubscribe_data_consumer.subscription_id",
                   "the subscription removed is the one named by the request", f"{un.module.rel}:{x.lineno}")
    # ---- reactive trigger
    ra = P.func(f"{LDM}.ldm_service_reactive.LDMServiceReactive.add_provider_data")
    fr = ctx.flows.get(ra)
    at = [x for x in P.calls_in(ra) if isinstance(x.func, ast.Attribute) and x.func.attr == "attend_subscriptions"]
    ok = bool(at) and any(f.kind == "call" and "super().add_provider_data(data)" in f.key for f in fr.state_at(at[0]).facts)
    ctx.ob("C14.reactive", ra.short(), "attend-after-insert", ok, "subscriptions are attended after the new object was inserted", ra.loc)
