"""C14 - LDM subscriptions notify exactly the matching data, at the requested cadence.

Decides: the guards in front of the consumer callback (notify-guards: non-empty result, at least `multiplicity`
matches, consumer still registered, last_notified + notify_time <= now); what the callback is handed (notify-data: the
back-end search of a request built from THIS subscription's types, filter, order and priority, ordered by its own order
tuple; the subscription's own callback receives that result and the subscriber's application id); bookkeeping of the two
subscription structures (bookkeeping: list and last-notified map filled and cleaned together, id = hash of the request,
subscribe and notify use the same map, the stamp is advanced to `now` on every notifying path before the callback and on
no skipping path - so a skipped notification fires at the first attendance after the interval); what unsubscribe removes
(unsubscribe: only for a registered consumer, by the id named in the request, exactly the subscriptions with that id and
ALL of them - the matches are not collected in a set, which would keep one of two equal subscriptions notified;
subscriptions of deregistered consumers, exactly those, dropped at attendance); the validation decision table
(validation: acceptance only after all seven validators held, each failure refused with its own result code naming the
applicant, no other refusing path, the validators' own predicates, storing only after validation returned None and
storing the validated request and callback); the reactive trigger (reactive: every add inserts once through the base
service, returns its index and attends subscriptions after the insert); the LDM clock is the wall clock truncated to whole
seconds, and SubscriptionInfo - the key of the bookkeeping - compares and hashes over all of its fields.
Does not decide cadence as timing, nor isolation between subscriptions over histories; expressions are compared as
written (a call spelled twice denotes one value).

Method: the functions involved are small and loop-free per subscription, so every rule is decided PATH BY PATH: a
symbolic walk (`explore`) enumerates the paths of a block, locals substituted by what they were bound to; each path
carries its branch conditions (canonical atoms of sem.py - spelling, operand order, nesting and local names do not
matter), the calls it makes (callees resolved, arguments bound to parameter names) and the stores it performs.
"""
from __future__ import annotations

import ast
import copy

from .. import sem
from ..flow import FunctionFlow, cond_atoms
from ..prog import AnalysisError, ClassInfo, FuncInfo, dotted, unparse

PROP = "C14"
LDM = "facilities.local_dynamic_map"
SV = f"{LDM}.ldm_service.LDMService"
IF4 = f"{LDM}.if_ldm_4.InterfaceLDM4"


# --------------------------------------------------------------------------------------------
# structural helpers
# --------------------------------------------------------------------------------------------
def is_name(n, name: str) -> bool:
    return isinstance(n, ast.Name) and n.id == name


def short(e, n: int = 100) -> str:
    try:
        return unparse(e)[:n] if e is not None else "None"
    except Exception:  # pragma: no cover
        return "<?>"


def parse(src: str) -> ast.AST:
    return ast.parse(src, mode="eval").body


def inside(node, root) -> bool:
    return any(n is node for n in ast.walk(root))


def targets(P, fi, call) -> list:
    if not isinstance(call, ast.Call):
        return []
    return [t for t in P.call_targets(fi, call, count=False, cha=False) if isinstance(t, (FuncInfo, ClassInfo))]


def calls_to(P, fi, call, what) -> bool:
    tg = targets(P, fi, call)
    return len(tg) == 1 and tg[0] is what


def bind(callee, call: ast.Call):
    """parameter / field name -> argument node (defaults filled in); None when the binding is not static."""
    if isinstance(callee, ClassInfo):
        init = callee.find_method("__init__")
        if init is not None:
            callee = init
        else:
            names = [k for k, (ann, _) in callee.fields.items() if ann is not None]
            defaults = {k: d for k, (ann, d) in callee.fields.items() if ann is not None and d is not None}
            off = 0
            kwonly = {}
    if isinstance(callee, FuncInfo):
        a = callee.node.args
        names = [x.arg for x in a.posonlyargs + a.args]
        off = 1 if (callee.kind in ("method", "classmethod", "property") or callee.name == "__init__") and names else 0
        defaults = dict(zip(names[len(names) - len(a.defaults):], a.defaults))
        kwonly = {x.arg: d for x, d in zip(a.kwonlyargs, a.kw_defaults)}
    if any(isinstance(x, ast.Starred) for x in call.args) or any(k.arg is None for k in call.keywords):
        return None
    out = {}
    for i, x in enumerate(call.args):
        if i + off >= len(names):
            return None
        out[names[i + off]] = x
    for k in call.keywords:
        if k.arg in out or (k.arg not in names and k.arg not in kwonly):
            return None
        out[k.arg] = k.value
    for nm, d in defaults.items():
        out.setdefault(nm, d)
    for nm, d in kwonly.items():
        if d is not None:
            out.setdefault(nm, d)
    return out


# --------------------------------------------------------------------------------------------
# path-by-path symbolic walk of a statement block
# --------------------------------------------------------------------------------------------
class Path:
    """items: ('cond', test, polarity) | ('call', call with locals substituted, original node) |
              ('store', container, key, value, stmt) | ('setattr', target, value, stmt) | ('del', container, key, stmt) |
              ('loop', stmt, iterable) | ('with', expr) | ('except', handler)
       end:   (kind, stmt, value)  kind in return / raise / continue / break / fall"""
    __slots__ = ("items", "env", "end")

    def __init__(self, items=None, env=None):
        self.items = list(items or [])
        self.env = dict(env or {})
        self.end = None

    def fork(self):
        return Path(self.items, self.env)

    def atoms(self, upto=None) -> set:
        out = set()
        for it in (self.items if upto is None else self.items[:upto]):
            if it[0] == "cond":
                out |= set(sem.atoms(it[1], it[2]))
        return out

    def flat(self, upto=None) -> list:
        """branch conditions as flat (node, polarity) atoms (conjunctions split, negations pushed in)"""
        out = []
        for it in (self.items if upto is None else self.items[:upto]):
            if it[0] == "cond":
                out += cond_atoms(it[1], it[2])
        return out

    def calls(self, orig=None):
        return [(i, it[1]) for i, it in enumerate(self.items) if it[0] == "call" and (orig is None or it[2] is orig)]


class Explorer:
    LIMIT = 4096

    def __init__(self):
        self._n = 0

    def fresh(self, name: str) -> ast.Name:
        self._n += 1
        return ast.Name(id=f"{name.replace('.', '_')}__h{self._n}", ctx=ast.Load())

    # ---- substitution of locals
    def subst(self, e, env):
        if e is None:
            return None
        ex = self

        class T(ast.NodeTransformer):
            def __init__(self):
                self.shadow = []

            def visit_Name(self, n):
                if isinstance(n.ctx, ast.Load) and n.id in env and not any(n.id in s for s in self.shadow):
                    return copy.deepcopy(env[n.id])
                return n

            def _comp(self, n):
                names = {x.id for g in n.generators for x in ast.walk(g.target) if isinstance(x, ast.Name)}
                # the first iterable is evaluated outside the comprehension's scope
                first = self.visit(n.generators[0].iter)
                self.shadow.append(names)
                try:
                    n = self.generic_visit(n)
                finally:
                    self.shadow.pop()
                n.generators[0].iter = first
                return n

            visit_ListComp = visit_SetComp = visit_GeneratorExp = visit_DictComp = _comp

            def visit_Lambda(self, n):
                a = n.args
                self.shadow.append({x.arg for x in a.posonlyargs + a.args + a.kwonlyargs} | ({a.vararg.arg} if a.vararg else set())
                                   | ({a.kwarg.arg} if a.kwarg else set()))
                try:
                    return self.generic_visit(n)
                finally:
                    self.shadow.pop()

        out = T().visit(copy.deepcopy(e))
        for n in ast.walk(out):
            if hasattr(n, "ctx") and not isinstance(n.ctx, ast.Load) and not isinstance(n, ast.Name):
                n.ctx = ast.Load()
        return out

    def _calls(self, p: Path, e):
        if e is None:
            return

        def rec(n):
            for c in ast.iter_child_nodes(n):
                rec(c)
            if isinstance(n, ast.Call):
                p.items.append(("call", self.subst(n, p.env), n))
        rec(e)

    def _freeze(self, p: Path, container):
        key = unparse(container)
        for k, v in list(p.env.items()):
            if key in unparse(v):
                p.env[k] = self.fresh(k)

    def _havoc(self, p: Path, stmts):
        for n in FunctionFlow.assigned_names(stmts):
            if "." not in n:
                p.env[n] = self.fresh(n)

    def _assign(self, p: Path, tgt, value, stmt):
        if isinstance(tgt, ast.Name):
            p.env[tgt.id] = value if value is not None else self.fresh(tgt.id)
        elif isinstance(tgt, (ast.Tuple, ast.List)):
            for i, t in enumerate(tgt.elts):
                v = value.elts[i] if isinstance(value, (ast.Tuple, ast.List)) and len(value.elts) == len(tgt.elts) else None
                self._assign(p, t, v, stmt)
        elif isinstance(tgt, ast.Subscript):
            c = self.subst(tgt.value, p.env)
            p.items.append(("store", c, self.subst(tgt.slice, p.env), value, stmt))
            self._freeze(p, c)
        elif isinstance(tgt, ast.Attribute):
            c = self.subst(tgt, p.env)
            p.items.append(("setattr", c, value, stmt))
            self._freeze(p, c)
        elif isinstance(tgt, ast.Starred):
            self._assign(p, tgt.value, None, stmt)

    # ---- the walk
    def block(self, stmts, paths):
        closed = []
        for s in stmts:
            nxt = []
            for p in paths:
                o, c = self.stmt(s, p)
                nxt += o
                closed += c
            paths = nxt
            if len(paths) + len(closed) > self.LIMIT:
                raise AnalysisError("C14: too many paths")
            if not paths:
                break
        return paths, closed

    def stmt(self, s, p: Path):
        if isinstance(s, ast.Expr):
            self._calls(p, s.value)
            v = s.value
            if isinstance(v, ast.Call) and isinstance(v.func, ast.Attribute) and v.func.attr in FunctionFlow.MUTATORS:
                self._freeze(p, self.subst(v.func.value, p.env))
            return [p], []
        if isinstance(s, (ast.Assign, ast.AnnAssign, ast.Return)) and isinstance(s.value, ast.IfExp):
            # a conditional expression as the assigned / returned value is a branch like any other
            def arm(v):
                n = copy.copy(s)
                n.value = v
                return n
            return self.stmt(ast.copy_location(ast.If(test=s.value.test, body=[arm(s.value.body)], orelse=[arm(s.value.orelse)]), s), p)
        if isinstance(s, (ast.Assign, ast.AnnAssign)):
            if s.value is None:
                return [p], []
            self._calls(p, s.value)
            v = self.subst(s.value, p.env)
            for t in (s.targets if isinstance(s, ast.Assign) else [s.target]):
                self._assign(p, t, v, s)
            return [p], []
        if isinstance(s, ast.AugAssign):
            self._calls(p, s.value)
            load = copy.deepcopy(s.target)
            for n in ast.walk(load):
                if hasattr(n, "ctx"):
                    n.ctx = ast.Load()
            self._assign(p, s.target, self.subst(ast.BinOp(left=load, op=s.op, right=s.value), p.env), s)
            return [p], []
        if isinstance(s, ast.If):
            self._calls(p, s.test)
            t = self.subst(s.test, p.env)
            a, b = p, p.fork()
            a.items.append(("cond", t, True))
            b.items.append(("cond", t, False))
            o1, c1 = self.block(s.body, [a])
            o2, c2 = self.block(s.orelse, [b]) if s.orelse else ([b], [])
            return o1 + o2, c1 + c2
        if isinstance(s, (ast.For, ast.AsyncFor, ast.While)):
            if isinstance(s, ast.While):
                self._calls(p, s.test)
            else:
                self._calls(p, s.iter)
                p.items.append(("loop", s, self.subst(s.iter, p.env)))
            self._havoc(p, [s])
            return [p], []
        if isinstance(s, (ast.With, ast.AsyncWith)):
            for it in s.items:
                self._calls(p, it.context_expr)
                p.items.append(("with", self.subst(it.context_expr, p.env)))
                if it.optional_vars is not None:
                    self._assign(p, it.optional_vars, None, s)
            return self.block(s.body, [p])
        if isinstance(s, ast.Try):
            entry = p.fork()
            opens, closed = self.block(s.body, [p])
            if s.orelse:
                opens, c2 = self.block(s.orelse, opens)
                closed += c2
            for h in s.handlers:
                hp = entry.fork()
                self._havoc(hp, s.body)
                hp.items.append(("except", h))
                if h.name:
                    hp.env[h.name] = self.fresh(h.name)
                o, c = self.block(h.body, [hp])
                opens += o
                closed += c
            if s.finalbody:
                opens, c3 = self.block(s.finalbody, opens)
                closed += c3
            return opens, closed
        if isinstance(s, ast.Return):
            self._calls(p, s.value)
            p.end = ("return", s, self.subst(s.value, p.env))
            return [], [p]
        if isinstance(s, ast.Raise):
            self._calls(p, s.exc)
            p.end = ("raise", s, None)
            return [], [p]
        if isinstance(s, (ast.Continue, ast.Break)):
            p.end = ("continue" if isinstance(s, ast.Continue) else "break", s, None)
            return [], [p]
        if isinstance(s, ast.Delete):
            for t in s.targets:
                if isinstance(t, ast.Subscript):
                    c = self.subst(t.value, p.env)
                    p.items.append(("del", c, self.subst(t.slice, p.env), s))
                    self._freeze(p, c)
                elif isinstance(t, ast.Name):
                    p.env[t.id] = self.fresh(t.id)
            return [p], []
        if isinstance(s, ast.Assert):
            self._calls(p, s.test)
            p.items.append(("cond", self.subst(s.test, p.env), True))
            return [p], []
        if isinstance(s, (ast.Pass, ast.Import, ast.ImportFrom, ast.Global, ast.Nonlocal, ast.FunctionDef, ast.AsyncFunctionDef, ast.ClassDef)):
            return [p], []
        raise AnalysisError(f"C14: unsupported statement {type(s).__name__} at line {getattr(s, 'lineno', 0)}")

    def explore(self, stmts) -> list:
        body = [b for b in stmts if not (isinstance(b, ast.Expr) and isinstance(b.value, ast.Constant))]
        opens, closed = self.block(body, [Path()])
        for p in opens:
            p.end = ("fall", None, None)
        return closed + opens


def implied(atoms: set, test, pol: bool = True) -> bool:
    """The path conditions `atoms` entail that `test` evaluates to `pol` (sufficient check: a conjunction needs every
    member, a disjunction needs the same disjunction as one branch condition or one of its members)."""
    if isinstance(test, str):
        test = parse(test)
    if isinstance(test, ast.UnaryOp) and isinstance(test.op, ast.Not):
        return implied(atoms, test.operand, not pol)
    if isinstance(test, ast.BoolOp):
        conj = (isinstance(test.op, ast.And) and pol) or (isinstance(test.op, ast.Or) and not pol)
        if conj:
            return all(implied(atoms, v, pol) for v in test.values)
        w = sem.atoms(test, pol)
        return (bool(w) and all(a in atoms for a in w)) or any(implied(atoms, v, pol) for v in test.values)
    w = sem.atoms(test, pol)
    return bool(w) and all(a in atoms for a in w)


def same(a, b) -> bool:
    if a is None or b is None:
        return False
    return sem.same(a, b)


# --------------------------------------------------------------------------------------------
# the rule
# --------------------------------------------------------------------------------------------
def check_key_identity(ctx, P) -> None:
    """`last_checked_subscriptions_time` is a dictionary keyed by SubscriptionInfo, and `subscriptions` is searched with `in` /
    `remove`: two live subscriptions are two keys only if equality and hash cover EVERY field (request and callback).  A field
    excluded from the comparison (`field(compare=False)`, a hand-written __eq__ over a subset) makes two consumers with identical
    requests share one time stamp - the second callback is never due."""
    ci = P.cls(f"{LDM}.ldm_classes.SubscriptionInfo")
    declared = [n for n, (ann, _) in ci.fields.items() if ann is not None]
    excluded = []
    for n, (ann, dv) in ci.fields.items():
        if isinstance(dv, ast.Call) and (dotted(dv.func) or "").split(".")[-1] == "field":
            for kw in dv.keywords:
                if kw.arg in ("compare", "hash") and isinstance(kw.value, ast.Constant) and kw.value.value is False:
                    excluded.append(f"{n} ({kw.arg}=False)")
    eq = ci.methods.get("__eq__")
    if eq is not None:
        me = eq.params[0] if eq.params else "self"
        read = {x.attr for x in ast.walk(eq.node) if isinstance(x, ast.Attribute) and isinstance(x.value, ast.Name) and x.value.id == me}
        excluded += [f"{n} (not compared by __eq__)" for n in declared if n not in read]
    hs = ci.methods.get("__hash__")
    value_eq = ci.dataclass or eq is not None
    hashable = (ci.dataclass and ci.frozen) or hs is not None or (eq is None and not ci.dataclass)
    ok = value_eq and hashable and not excluded and len(declared) >= 2
    ctx.ob("C14.bookkeeping", ci.qual[10:], "subscription-key-covers-every-field", ok,
           "SubscriptionInfo compares and hashes over all of its fields (request and callback)" if ok else
           f"SubscriptionInfo does not compare / hash over all of its fields: {excluded or ['not a hashable value class']} - subscriptions that differ only "
           "there are one key of last_checked_subscriptions_time, so only the first of them is ever notified", f"{ci.module.rel}:{ci.node.lineno}")


def check_clock(ctx, P) -> None:
    """The cadence is stated at the LDM's one-second clock: `TimestampIts.initialize_with_utc_timestamp_seconds()` without an
    argument reads the wall clock truncated to whole seconds.  Every TimeService.time() read in it is the argument of int() /
    floor(): a fractional `now` makes an interval of n seconds elapse late by up to a second against the stamps it is compared
    with, and lets a 1 ms interval notify several times within one second."""
    ts = P.cls(f"{LDM}.ldm_classes.TimestampIts")
    fi = ts.methods.get("initialize_with_utc_timestamp_seconds")
    if fi is None:
        raise AnalysisError("C14: TimestampIts.initialize_with_utc_timestamp_seconds vanished")
    fl = ctx.flows.get(fi)
    clocks = [c for c in P.calls_in(fi) if (dotted(c.func) or "").endswith("TimeService.time")]
    if not clocks:
        raise AnalysisError("C14: TimestampIts.initialize_with_utc_timestamp_seconds no longer reads the wall clock")
    bare = []
    for c in clocks:
        par = fl.parent.get(id(c))
        ok = isinstance(par, ast.Call) and (dotted(par.func) or "").split(".")[-1] in ("int", "floor", "trunc") and par.args and par.args[0] is c
        if not ok:
            bare.append(c.lineno)
    ctx.ob("C14.bookkeeping", fi.short(), "clock-in-whole-seconds", not bare,
           "the LDM clock is the wall clock truncated to whole seconds" if not bare else
           f"the wall clock is used with its fractional part (line {bare[0]}): notification intervals are no longer measured at the LDM's "
           "one-second resolution (late notifications for intervals >= 1 s, repeated ones within a second for the 1 ms interval)", fi.loc)


def run(ctx):
    P = ctx.prog
    ctx.explanation = (
        "Guard rules (K1) on the single place where a consumer callback is invoked and on the call chain that leads to it "
        "(attend_subscriptions -> process_notifications), provenance rules on the data handed over, paired-update rules on "
        "the subscription list / last-notified map, a decision table for the seven validators of subscribe requests "
        "(validator false => matching result code, storing only after all seven), and the reactive trigger on add. "
        "Every rule is decided on each path of the function concerned (symbolic walk with locals substituted, branch "
        "conditions compared as canonical atoms, callees resolved, arguments bound to parameter names) - "
        "path-universal, hence valid for every interleaving of subscribe / unsubscribe / add the single-threaded walk can take.")
    ctx.declined = ["cadence as real time", "isolation between subscriptions over histories",
                    "expressions are compared as written (a call spelled twice denotes one value)"]
    sv = P.cls(SV)
    if4 = P.cls(IF4)
    X = Explorer()
    check_attend(ctx, P, X, sv)
    check_search_data(ctx, P, X, sv)
    check_process(ctx, P, X, sv)
    check_bookkeeping(ctx, P, X, sv)
    check_validation(ctx, P, X, sv, if4)
    check_unsubscribe_if(ctx, P, X, sv, if4)
    check_reactive(ctx, P, X)
    check_clock(ctx, P)
    check_key_identity(ctx, P)
    ctx.floor("C14.notify-guards", 4)
    ctx.floor("C14.notify-data", 5)
    ctx.floor("C14.bookkeeping", 7)
    ctx.floor("C14.unsubscribe", 4)
    ctx.floor("C14.validation", 22)
    ctx.floor("C14.reactive", 2)


# ---------------------------------------------------------------- attend_subscriptions
def check_attend(ctx, P, X, sv):
    att = sv.methods["attend_subscriptions"]
    pn = sv.methods["process_notifications"]
    sd = sv.methods["search_data"]
    osr = sv.methods["order_search_results"]
    reg = sv.methods["get_data_consumer_its_aid"]
    rm = sv.methods["remove_subscription"]
    calls = [c for c in P.calls_in(att) if calls_to(P, att, c, pn)]
    if len(calls) != 1:
        raise AnalysisError(f"C14: attend_subscriptions calls process_notifications {len(calls)} times (confirmed: 1)")
    c = calls[0]
    loops = [n for n in ast.walk(att.node) if isinstance(n, ast.For) and inside(c, n)]
    if len(loops) != 1 or not isinstance(loops[0].target, ast.Name) or loops[0] not in att.node.body:
        raise AnalysisError("C14: process_notifications is no longer called from one loop over the subscriptions")
    loop = loops[0]
    sub = loop.target.id
    loc = f"{att.module.rel}:{c.lineno}"
    stable = sub not in FunctionFlow.assigned_names(loop.body) and not any(
        n.startswith(sub + ".") for n in FunctionFlow.assigned_names(att.node.body))
    paths = X.explore(loop.body)
    hits = [(p, i, xc) for p in paths for i, xc in p.calls(c)]
    if not hits:
        raise AnalysisError("C14: no path of the subscription loop reaches process_notifications")
    R = parse(f"self.search_data({sub})")
    if not calls_to(P, att, R, sd):
        raise AnalysisError("C14: LDMService.search_data(subscription) no longer resolves")
    REG = parse("self.get_data_consumer_its_aid()")
    if not calls_to(P, att, REG, reg):
        raise AnalysisError("C14: LDMService.get_data_consumer_its_aid() no longer resolves")
    M = f"{sub}.subscription_request.multiplicity"
    ORDER = f"{sub}.subscription_request.order"
    registered = parse(f"{sub}.subscription_request.application_id in {unparse(REG)}")
    mult = parse(f"{M} is not None and {M} > len({unparse(R)})")

    def is_ordered(e):
        """e == self.order_search_results(R, ORDER) (arguments bound by name)"""
        if not (isinstance(e, ast.Call) and calls_to(P, att, e, osr)):
            return False
        bd = bind(osr, e)
        return bd is not None and same(bd.get(osr.params[1]), R) and same(bd.get(osr.params[2]), ORDER)

    g_nonempty = g_mult = g_reg = stable
    data_ok, data_why = stable, []
    for p, i, xc in hits:
        A = p.atoms(i)
        g_nonempty = g_nonempty and implied(A, R, True)
        g_mult = g_mult and implied(A, mult, False)
        g_reg = g_reg and implied(A, registered, True)
        bd = bind(pn, xc)
        if bd is None or not is_name(bd.get(pn.params[1]), sub):
            data_ok = False
            data_why.append(f"process_notifications is handed `{short(xc)}`: not the subscription being attended")
            continue
        d = bd.get(pn.params[2])
        flat = p.flat(i)
        if same(d, R):
            # unordered data only where no order was requested (or ordering produced nothing)
            no_order = implied(A, f"{ORDER} is not None", False) or any((not pol) and is_ordered(n) for n, pol in flat)
            if not no_order:
                data_ok = False
                data_why.append("a subscription that requests an order is notified with the UNORDERED search result")
        elif isinstance(d, ast.Subscript) and isinstance(d.slice, ast.Constant) and d.slice.value == 0 and is_ordered(d.value):
            if not implied(A, f"{ORDER} is not None", True):
                data_ok = False
                data_why.append("the result is ordered although no order was requested")
        else:
            data_ok = False
            data_why.append(f"data notified = `{short(d)}`: neither this subscription's search result nor its ordering")
    ctx.ob("C14.notify-guards", att.short(), "non-empty", g_nonempty, "no notification for an empty result", loc)
    ctx.ob("C14.notify-guards", att.short(), "multiplicity", g_mult,
           "notification only when at least `multiplicity` objects match" if g_mult else
           "some path notifies although `multiplicity is not None and multiplicity > len(result)`", loc)
    ctx.ob("C14.notify-guards", att.short(), "consumer-registered", g_reg,
           "a notification is produced only for a consumer that is still registered" if g_reg else
           "some path reaches process_notifications without having found the consumer in the registry: a consumer that deregistered is "
           "called back once more before its subscription is dropped", loc)
    ctx.ob("C14.notify-data", att.short(), "result-of-this-subscription", data_ok,
           "data notified = the search for this subscription, ordered by its own order tuple whenever it has one" if data_ok else
           "; ".join(dict.fromkeys(data_why)) or "the loop variable is re-bound", loc)
    # subscriptions of deregistered consumers are collected (exactly those) and dropped after the loop
    acc = None
    for p in paths:
        for _, xc in p.calls():
            if isinstance(xc.func, ast.Attribute) and xc.func.attr in ("add", "append") and isinstance(xc.func.value, ast.Name) \
                    and len(xc.args) == 1 and is_name(xc.args[0], sub):
                acc = xc.func.value.id
    ok, why = acc is not None, []
    if acc is None:
        why.append("no collection of subscriptions to drop")
    else:
        def adds(p):
            return any(isinstance(xc.func, ast.Attribute) and xc.func.attr in ("add", "append") and is_name(xc.func.value, acc)
                       and len(xc.args) == 1 and is_name(xc.args[0], sub) for _, xc in p.calls())
        for p in paths:
            gone = implied(p.atoms(), registered, False)
            if adds(p) != gone:
                ok = False
                why.append("a subscription is marked for removal although its consumer was not found deregistered" if adds(p) else
                           "a subscription of a deregistered consumer is not marked for removal")
        init = [s for s in att.node.body if isinstance(s, ast.Assign) and len(s.targets) == 1 and is_name(s.targets[0], acc)]
        uses = [n for n in ast.walk(att.node) if isinstance(n, ast.Name) and n.id == acc]
        empty = len(init) == 1 and ((isinstance(init[0].value, ast.Call) and dotted(init[0].value.func) in ("set", "list") and not init[0].value.args)
                                    or (isinstance(init[0].value, ast.List) and not init[0].value.elts))
        drops = [s for s in att.node.body if isinstance(s, ast.For) and is_name(s.iter, acc) and isinstance(s.target, ast.Name)
                 and att.node.body.index(s) > att.node.body.index(loop)]
        if not empty or len(uses) != 3 or len(drops) != 1:
            ok = False
            why.append(f"`{acc}` is not (an initially empty collection, filled in the loop, walked once afterwards)")
        else:
            for p in X.explore(drops[0].body):
                if not any(calls_to(P, att, xc, rm) and len(xc.args) == 1 and is_name(xc.args[0], drops[0].target.id) for _, xc in p.calls()):
                    ok = False
                    why.append("a collected subscription is not handed to remove_subscription")
    ctx.ob("C14.unsubscribe", att.short(), "deregistered-removed", ok and stable,
           "subscriptions of deregistered consumers (exactly those) are dropped" if ok else "; ".join(dict.fromkeys(why)), att.loc)


# ---------------------------------------------------------------- search_data
def check_search_data(ctx, P, X, sv):
    sd = sv.methods["search_data"]
    req = P.cls(f"{LDM}.ldm_classes.RequestDataObjectsReq")
    subp = sd.params[1]
    stable = subp not in FunctionFlow.assigned_names(sd.node.body)
    fields = ("application_id", "data_object_type", "priority", "order", "filter")
    built_all, n = stable, 0
    for p in X.explore(sd.node.body):
        kind, s_, v = p.end
        if kind == "raise":
            continue
        n += 1
        from_backend = isinstance(v, ast.Call) and isinstance(v.func, ast.Attribute) and v.func.attr == "search" and \
            same(v.func.value, "self.ldm_maintenance.data_containers") and len(v.args) == 1 and not v.keywords
        built, missing = False, list(fields)
        if from_backend and calls_to(P, sd, v.args[0], req):
            bd = bind(req, v.args[0]) or {}
            missing = [f for f in fields if not same(bd.get(f), f"{subp}.subscription_request.{f}")]
            built = not missing
        built_all = built_all and built
        line = s_.lineno if s_ is not None else sd.node.lineno
        ctx.ob("C14.notify-data", sd.short(), f"return@{line - sd.node.lineno}", from_backend and built,
               "every result handed to a notification comes from the back-end search for this subscription's types and filter" if from_backend and built else
               (f"a subscription result is produced by `{short(v)}`: it bypasses the type / filter selection of this subscription" if not from_backend
                else f"the search request does not carry this subscription's {missing}"), f"{sd.module.rel}:{line}")
    ctx.ob("C14.notify-data", sd.short(), "request-built-from-subscription", built_all and n > 0,
           "the search request is built from this subscription's types, filter, order and priority", sd.loc)


# ---------------------------------------------------------------- process_notifications
def check_process(ctx, P, X, sv):
    pn = sv.methods["process_notifications"]
    subp, datap = pn.params[1], pn.params[2]
    ts = P.cls(f"{LDM}.ldm_classes.TimestampIts")
    resp = P.cls(f"{LDM}.ldm_classes.RequestDataObjectsResp")
    cbs = [x for x in P.calls_in(pn) if isinstance(x.func, ast.Attribute) and x.func.attr == "callback"]
    if len(cbs) != 1:
        raise AnalysisError(f"C14: {len(cbs)} callback invocations in process_notifications (confirmed: 1)")
    cb = cbs[0]
    loc = f"{pn.module.rel}:{cb.lineno}"
    stable = not ({subp, datap} & FunctionFlow.assigned_names(pn.node.body))
    paths = X.explore(pn.node.body)
    hits = [(p, i, xc) for p in paths for i, xc in p.calls(cb)]
    if not hits:
        raise AnalysisError("C14: no path of process_notifications reaches the callback")
    # the last-notified map: the one container this function stores into under the subscription
    maps = {sem.cx(it[1]) for p in paths for it in p.items if it[0] == "store" and is_name(it[2], subp)}
    if len(maps) != 1:
        raise AnalysisError(f"C14: process_notifications stores the subscription's stamp into {sorted(maps) or 'nothing'} (confirmed: one map)")
    MAP = next(iter(maps))
    stored_forms = [f"{MAP}.get({subp})", f"{MAP}.get({subp}, None)", f"{MAP}[{subp}]"]
    NT = f"{subp}.subscription_request.notify_time"

    def is_now(e) -> bool:
        if not (isinstance(e, ast.Call) and not e.args and not e.keywords):
            return False
        tg = targets(P, pn, e)
        return len(tg) == 1 and isinstance(tg[0], FuncInfo) and tg[0].cls is ts and tg[0].name == "initialize_with_utc_timestamp_seconds"

    def no_stamp_yet(A) -> bool:
        return any(implied(A, f"{s} is None", True) for s in stored_forms)

    def stamps_before(p, i):
        return [it for it in p.items[:i] if it[0] == "store" and sem.cx(it[1]) == MAP and is_name(it[2], subp)]

    interval, stamped = stable, stable
    nows = set()
    for p, i, xc in hits:
        A = p.atoms(i)
        st = stamps_before(p, i)
        good = [it for it in st if is_now(it[3])]
        stamped = stamped and bool(st) and is_now(st[-1][3])
        for it in good:
            nows.add(sem.cx(it[3]))
        now = unparse(good[-1][3]) if good else "TimestampIts.initialize_with_utc_timestamp_seconds()"
        lasts = [now] if no_stamp_yet(A) else stored_forms
        interval = interval and any(implied(A, f"{NT} is not None and {l} + {NT} > {now}", False) for l in lasts)
    ctx.ob("C14.notify-guards", pn.short(), "interval", interval,
           "callback only when last_notified + notify_time <= now" if interval else
           "some path invokes the callback although `notify_time is not None and last_notified + notify_time > now`", loc)
    ctx.ob("C14.bookkeeping", pn.short(), "stamp-when-notifying", stamped and len(nows) <= 1,
           "the last-notified time is advanced (to the `now` of the interval test) on every path that invokes the callback, before invoking it"
           if stamped else "some path invokes the callback without having advanced the last-notified time of this subscription to `now`", loc)
    # skipping paths: only the initial stamp (there was none) may be written
    n_skip = 0
    for p in paths:
        if p.calls(cb) or p.end[0] == "raise":
            continue
        n_skip += 1
        late = [it for j, it in enumerate(p.items) if it[0] in ("store", "del") and sem.cx(it[1]) == MAP and not no_stamp_yet(p.atoms(j))]
        line = p.end[1].lineno if p.end[1] is not None else pn.node.lineno
        ctx.ob("C14.bookkeeping", pn.short(), "no-stamp-when-skipping", not late,
               "a skipped notification does not advance the last-notified time (so it fires at the first attendance after the interval)"
               if not late else "the last-notified time is advanced although no notification is sent: the interval restarts at every attendance",
               f"{pn.module.rel}:{line}")
    if not n_skip:
        ctx.ob("C14.bookkeeping", pn.short(), "no-stamp-when-skipping", False, "process_notifications never skips a notification", pn.loc)
    pay = True
    for p, i, xc in hits:
        a0 = xc.args[0] if len(xc.args) == 1 and not xc.keywords else None
        bd = bind(resp, a0) if isinstance(a0, ast.Call) and calls_to(P, pn, a0, resp) else None
        pay = pay and bd is not None and is_name(bd.get("data_objects"), datap) and \
            same(bd.get("application_id"), f"{subp}.subscription_request.application_id")
    ctx.ob("C14.notify-data", pn.short(), "callback-payload", pay and stable,
           "the callback receives the search result it was handed and the subscriber's application id", loc)
    ctx.ob("C14.notify-data", pn.short(), "own-callback", is_name(cb.func.value, subp) and stable,
           "the callback invoked is the one stored with this subscription", loc)


# ---------------------------------------------------------------- the two subscription structures
def check_bookkeeping(ctx, P, X, sv):
    st_new = sv.methods["store_new_subscription_petition"]
    rm = sv.methods["remove_subscription"]
    ds = sv.methods["delete_subscription"]
    pn = sv.methods["process_notifications"]
    info = P.cls(f"{LDM}.ldm_classes.SubscriptionInfo")
    # the containers: list appended to on subscribe, map stored into on subscribe
    reqp, cbp = st_new.params[1], st_new.params[2]

    def is_new(e) -> bool:
        if not (isinstance(e, ast.Call) and calls_to(P, st_new, e, info)):
            return False
        bd = bind(info, e)
        return bd is not None and is_name(bd.get("subscription_request"), reqp) and is_name(bd.get("callback"), cbp)

    paired, ident, lists, maps = True, True, set(), set()
    paths = [p for p in X.explore(st_new.node.body) if p.end[0] != "raise"]
    for p in paths:
        app = [xc for _, xc in p.calls() if isinstance(xc.func, ast.Attribute) and xc.func.attr == "append" and len(xc.args) == 1 and is_new(xc.args[0])]
        sto = [it for it in p.items if it[0] == "store" and is_new(it[2])]
        paired = paired and len(app) == 1 and len(sto) == 1
        lists |= {sem.cx(xc.func.value) for xc in app}
        maps |= {sem.cx(it[1]) for it in sto}
        v = p.end[2]
        good = isinstance(v, ast.Call) and dotted(v.func) == "hash" and len(v.args) == 1 and not v.keywords
        if good:
            a = v.args[0]
            good = is_name(a, reqp) or (isinstance(a, ast.Attribute) and a.attr == "subscription_request" and is_new(a.value))
        ident = ident and good
    paired = paired and bool(paths) and len(lists) == 1 and len(maps) == 1 and not ({reqp, cbp} & FunctionFlow.assigned_names(st_new.node.body))
    ctx.ob("C14.bookkeeping", st_new.short(), "paired-insert", paired,
           "subscription list and last-notified map are filled together, with the same new SubscriptionInfo(request, callback)", st_new.loc)
    ctx.ob("C14.bookkeeping", st_new.short(), "id", ident and bool(paths),
           "the subscription id is the hash of the subscription request - the value the unsubscribe path compares with", st_new.loc)
    LIST = next(iter(lists)) if len(lists) == 1 else "self.subscriptions"
    MAP = next(iter(maps)) if len(maps) == 1 else "self.last_checked_subscriptions_time"
    # the map filled on subscribe is the one process_notifications reads its stamp from (sibling agreement)
    pmaps = {sem.cx(it[1]) for p in X.explore(pn.node.body) for it in p.items if it[0] == "store"}
    ctx.ob("C14.bookkeeping", pn.short(), "same-map", pmaps == {MAP},
           f"subscribe and notify use the same last-notified map `{MAP}`" if pmaps == {MAP} else f"subscribe fills `{MAP}`, notify stamps {sorted(pmaps)}", pn.loc)
    # remove_subscription
    sp = rm.params[1]
    ok = sp not in FunctionFlow.assigned_names(rm.node.body)
    rpaths = X.explore(rm.node.body)
    for p in rpaths:
        if p.end[0] == "raise":
            ok = False
            continue
        popped = any(isinstance(xc.func, ast.Attribute) and xc.func.attr == "pop" and sem.cx(xc.func.value) == MAP and xc.args and is_name(xc.args[0], sp)
                     for _, xc in p.calls()) or any(it[0] == "del" and sem.cx(it[1]) == MAP and is_name(it[2], sp) for it in p.items)
        removed = any(isinstance(xc.func, ast.Attribute) and xc.func.attr == "remove" and sem.cx(xc.func.value) == LIST and len(xc.args) == 1 and is_name(xc.args[0], sp)
                      for _, xc in p.calls())
        A = p.atoms()
        ok = ok and (popped or implied(A, f"{sp} in {MAP}", False)) and (removed or implied(A, f"{sp} in {LIST}", False))
    ctx.ob("C14.bookkeeping", rm.short(), "paired-remove", ok and bool(rpaths), "both structures are cleaned together" if ok else
           "some path of remove_subscription leaves the subscription in the list or its entry in the last-notified map", rm.loc)
    # delete_subscription: exactly the subscriptions whose id equals the argument
    idp = ds.params[1]
    ok, why = idp not in FunctionFlow.assigned_names(ds.node.body), []
    fl = ctx.flows.get(ds)
    loops = [s for s in ds.node.body if isinstance(s, ast.For)]
    collect = [s for s in loops if isinstance(s.target, ast.Name) and sem.cx(fl.expand(s.iter, fl.state_at(s))) in
               (LIST, f"{LIST}.copy()", f"list({LIST})", f"tuple({LIST})", f"{LIST}[0:]")]
    acc = None
    if len(collect) != 1:
        ok = False
        why.append(f"no single loop over `{LIST}`")
    else:
        lp = collect[0]
        v = lp.target.id
        match = parse(f"hash({v}.subscription_request) == {idp}")
        for p in X.explore(lp.body):
            adds = [xc for _, xc in p.calls() if isinstance(xc.func, ast.Attribute) and xc.func.attr in ("add", "append") and
                    isinstance(xc.func.value, ast.Name) and len(xc.args) == 1 and is_name(xc.args[0], v)]
            for xc in adds:
                acc = xc.func.value.id if acc in (None, xc.func.value.id) else "?"
            A = p.atoms()
            if adds and not implied(A, match, True):
                ok = False
                why.append("a subscription is selected although hash(subscription_request) == subscription_id is not established")
            if not adds and not implied(A, match, False):
                ok = False
                why.append("a subscription whose id matches is not selected")
            if p.end[0] in ("break", "return", "raise"):
                ok = False
                why.append("the scan stops early")
        if acc in (None, "?"):
            ok = False
            why.append("no collection of matching subscriptions")
        else:
            init = [s for s in ds.node.body if isinstance(s, ast.Assign) and len(s.targets) == 1 and is_name(s.targets[0], acc)]
            empty = len(init) == 1 and ((isinstance(init[0].value, ast.Call) and dotted(init[0].value.func) in ("set", "list") and not init[0].value.args)
                                        or (isinstance(init[0].value, ast.List) and not init[0].value.elts))
            drops = [s for s in loops if is_name(s.iter, acc) and isinstance(s.target, ast.Name) and ds.node.body.index(s) > ds.node.body.index(lp)]
            if not empty or len(drops) != 1:
                ok = False
                why.append(f"`{acc}` is not (initially empty, filled by the scan, walked once afterwards)")
            else:
                for p in X.explore(drops[0].body):
                    if not any(calls_to(P, ds, xc, rm) and len(xc.args) == 1 and is_name(xc.args[0], drops[0].target.id) for _, xc in p.calls()) \
                            or p.end[0] in ("break", "return", "raise"):
                        ok = False
                        why.append("a selected subscription is not handed to remove_subscription")
            uses = [n for n in ast.walk(ds.node) if isinstance(n, ast.Name) and n.id == acc]
            rets = [p for p in X.explore(ds.node.body) if p.end[0] != "raise"]
            told = bool(rets) and all(p.end[0] == "return" and p.end[1].value is not None and
                                      sem.atoms(p.end[1].value, True) == [f"truthy({acc})"] for p in rets)
            if not told or len(uses) != 4:
                ok = False
                why.append("the result does not tell whether any subscription was selected")
    ctx.ob("C14.unsubscribe", ds.short(), "only-matching-id", ok,
           "exactly the subscriptions whose id equals the argument are removed; the result tells whether any was" if ok else
           "; ".join(dict.fromkeys(why)), ds.loc)
    # ALL of them: the identifier is the hash of the request, so two subscriptions made with an identical request share it
    # and compare equal - collecting the matches in a set keeps one of them, and the other's callback keeps being invoked
    # after the unsubscription was acknowledged
    sets = [n for n in ast.walk(ds.node) if isinstance(n, (ast.Set, ast.SetComp)) or
            (isinstance(n, ast.Call) and dotted(n.func) in ("set", "frozenset"))]
    ctx.ob("C14.unsubscribe", ds.short(), "all-matching-removed", not sets,
           "the matching subscriptions are collected with their multiplicity (no set)" if not sets else
           f"the matching subscriptions are collected in a set (line {sets[0].lineno}): of two equal subscriptions (same request and callback, "
           "same id) only one is removed, the other is still notified after the unsubscription succeeded", ds.loc)


# ---------------------------------------------------------------- validation decision table
TABLE = {"is_valid_its_aid": ("application_id", "INVALID_ITSA_ID", False),
         "is_valid_data_object_type": ("data_object_type", "INVALID_DATA_OBJECT_TYPE", False),
         "is_valid_priority": ("priority", "INVALID_PRIORITY", True),
         "is_valid_order": ("order", "INVALID_ORDER", True),
         "is_valid_filter": ("filter", "INVALID_FILTER", True),
         "is_valid_notify_time": ("notify_time", "INVALID_NOTIFICATION_INTERVAL", True),
         "is_valid_multiplicity": ("multiplicity", "INVALID_MULTIPLICITY", True)}


def check_validation(ctx, P, X, sv, if4):
    v = if4.methods["validate_subscribe_data_consumer"]
    rp = v.params[1]
    respc = P.cls(f"{LDM}.ldm_classes.SubscribeDataObjectsResp")
    resc = P.cls(f"{LDM}.ldm_classes.SubscribeDataobjectsResult")
    stable = rp not in FunctionFlow.assigned_names(v.node.body)
    paths = [p for p in X.explore(v.node.body) if p.end[0] != "raise"]

    def vcall(val):
        field = TABLE[val][0]
        c = parse(f"self.{val}({rp}.{field})")
        if not calls_to(P, v, c, if4.methods[val]):
            raise AnalysisError(f"C14: validator {val} no longer resolves")
        return c

    def code_of(p):
        e = p.end[2]
        if isinstance(e, ast.Call) and calls_to(P, v, e, respc):
            bd = bind(respc, e) or {}
            r = P.resolve_expr_entity(v.module, bd.get("result")) if bd.get("result") is not None else None
            if isinstance(r, tuple) and r[0] == "enum" and r[1] is resc:
                return r[2], same(bd.get("application_id"), f"{rp}.application_id")
        return None, False

    accepts = [p for p in paths if p.end[0] == "fall" or (p.end[0] == "return" and (p.end[2] is None or (isinstance(p.end[2], ast.Constant) and p.end[2].value is None)))]
    if not accepts:
        raise AnalysisError("C14: validate_subscribe_data_consumer has no accepting path")
    seen = {}
    for val, (field, code, optional) in TABLE.items():
        c = vcall(val)
        bypass = parse(f"{rp}.{field} is not None and not {unparse(c)}")
        for p in accepts:
            A = p.atoms()
            passed = implied(A, c, True) or (optional and implied(A, bypass, False))
            line = p.end[1].lineno if p.end[1] is not None else v.node.lineno
            ctx.ob("C14.validation", v.short(), f"accept-needs:{val}", passed and stable,
                   f"a request is accepted only after {val} held" + (" (or the optional field is absent)" if optional else ""), f"{v.module.rel}:{line}")
        refusing = [p for p in paths if p not in accepts and implied(p.atoms(), c, False)]
        for p in refusing:
            got, app = code_of(p)
            seen[val] = got
            ctx.ob("C14.validation", v.short(), f"code:{val}", got == code and app,
                   f"a request failing {val} is refused with {got} (must be {code}), naming the applicant", f"{v.module.rel}:{p.end[1].lineno}")
        if not refusing:
            ctx.ob("C14.validation", v.short(), f"code:{val}", False, f"no path refuses a request because {val} failed", v.loc)
    other = [p for p in paths if p not in accepts and not any(implied(p.atoms(), vcall(val), False) for val in TABLE)]
    ctx.ob("C14.validation", v.short(), "all-seven", set(seen) == set(TABLE) and not other,
           f"validators whose failure refuses the request: {sorted(seen)}" + (f"; {len(other)} refusing path(s) not caused by a failed validator" if other else ""), v.loc)
    # subscribe: storing only after validation returned None, with the validated request
    sub = if4.methods["subscribe_data_consumer"]
    srp, scb = sub.params[1], sub.params[2]
    store = if4.methods["store_subscription_info"]
    ok, n = not ({srp, scb} & FunctionFlow.assigned_names(sub.node.body)), 0
    valid = parse(f"self.validate_subscribe_data_consumer({srp})")
    if not calls_to(P, sub, valid, v):
        raise AnalysisError("C14: subscribe_data_consumer no longer validates through validate_subscribe_data_consumer")
    for p in X.explore(sub.node.body):
        for i, xc in p.calls():
            if calls_to(P, sub, xc, store):
                n += 1
                bd = bind(store, xc) or {}
                ok = ok and implied(p.atoms(i), ast.Compare(left=valid, ops=[ast.Is()], comparators=[ast.Constant(None)]), True) and \
                    is_name(bd.get(store.params[1]), srp) and is_name(bd.get(store.params[2]), scb)
    ctx.ob("C14.validation", sub.short(), "store-after-validation", ok and n > 0, "a subscription is stored only when validation returned None",
           sub.loc)
    # store_subscription_info hands request and callback to the service unchanged
    new = sv.methods["store_new_subscription_petition"]
    ok, n = True, 0
    for p in X.explore(store.node.body):
        if p.end[0] == "raise":
            continue
        n += 1
        e = p.end[2]
        bd = bind(new, e) if isinstance(e, ast.Call) and calls_to(P, store, e, new) else None
        ok = ok and bd is not None and is_name(bd.get(new.params[1]), store.params[1]) and is_name(bd.get(new.params[2]), store.params[2])
    ctx.ob("C14.validation", store.short(), "stores-validated-request", ok and n > 0,
           "the validated request and its callback are what the service stores", store.loc)
    # the validators themselves
    reg = sv.methods["get_data_consumer_its_aid"]
    ranges = {"is_valid_priority": (0, 255, ""), "is_valid_multiplicity": (0, 255, ""), "is_valid_notify_time": (0, 4398046511103, ".timestamp_its")}
    for name, (lo, hi, attr) in ranges.items():
        m = if4.methods[name]
        p_ = m.params[1]
        want = sem.want(f"{p_} is None or {lo} <= {p_}{attr} <= {hi}")
        rets = [q for q in X.explore(m.node.body) if q.end[0] != "raise"]
        ok = bool(rets) and all(q.end[0] == "return" and q.end[2] is not None and not q.atoms() and sem.atoms(q.end[2], True) == want for q in rets)
        ctx.ob("C14.validation", m.short(), "predicate", ok, f"{name}: absent or {lo} <= value{attr} <= {hi}", m.loc)
    m = if4.methods["is_valid_its_aid"]
    p_ = m.params[1]
    rets = [q for q in X.explore(m.node.body) if q.end[0] != "raise"]
    ok = bool(rets)
    for q in rets:
        e = q.end[2]
        ok = ok and not q.atoms() and isinstance(e, ast.Compare) and len(e.ops) == 1 and isinstance(e.ops[0], ast.In) and is_name(e.left, p_) and \
            same(e.comparators[0], "self.ldm_service.get_data_consumer_its_aid()") and calls_to(P, m, e.comparators[0], reg)
    ctx.ob("C14.validation", m.short(), "predicate", ok, "is_valid_its_aid: the applicant is a registered data CONSUMER", m.loc)
    m = if4.methods["is_valid_data_object_type"]
    p_ = m.params[1]
    rets = [q for q in X.explore(m.node.body) if q.end[0] != "raise"]
    ok = bool(rets)
    for q in rets:
        e = q.end[2]
        g = e.args[0] if isinstance(e, ast.Call) and dotted(e.func) == "all" and len(e.args) == 1 and not e.keywords else None
        good = isinstance(g, (ast.GeneratorExp, ast.ListComp)) and len(g.generators) == 1 and not g.generators[0].ifs and \
            isinstance(g.generators[0].target, ast.Name) and is_name(g.generators[0].iter, p_)
        if good:
            r = P.resolve_name(m.module, "DATA_OBJECT_TYPE_ID")
            good = sem.atoms(g.elt, True) == sem.want(f"{g.generators[0].target.id} in DATA_OBJECT_TYPE_ID") and isinstance(r, tuple) and \
                r[0] == "const" and r[1].name.endswith("ldm_constants")
        ok = ok and good and not q.atoms()
    ctx.ob("C14.validation", m.short(), "predicate", ok, "is_valid_data_object_type: every requested type is a key of DATA_OBJECT_TYPE_ID", m.loc)


# ---------------------------------------------------------------- unsubscribe interface
def check_unsubscribe_if(ctx, P, X, sv, if4):
    un = if4.methods["unsubscribe_data_consumer"]
    rp = un.params[1]
    ds = sv.methods["delete_subscription"]
    reg = sv.methods["get_data_consumer_its_aid"]
    REG = parse("self.ldm_service.get_data_consumer_its_aid()")
    if not calls_to(P, un, REG, reg):
        raise AnalysisError("C14: InterfaceLDM4 no longer reaches LDMService.get_data_consumer_its_aid")
    registered = parse(f"{rp}.application_id in {unparse(REG)}")
    stable = rp not in FunctionFlow.assigned_names(un.node.body)
    n, r_ok, id_ok = 0, stable, stable
    for p in X.explore(un.node.body):
        for i, xc in p.calls():
            if calls_to(P, un, xc, ds):
                n += 1
                bd = bind(ds, xc) or {}
                r_ok = r_ok and implied(p.atoms(i), registered, True)
                id_ok = id_ok and same(bd.get(ds.params[1]), f"{rp}.subscription_id")
    if not n:
        raise AnalysisError("C14: unsubscribe_data_consumer no longer calls delete_subscription")
    ctx.ob("C14.unsubscribe", un.short(), "registered-consumer", r_ok, "only a registered consumer can unsubscribe", un.loc)
    ctx.ob("C14.unsubscribe", un.short(), "by-id", id_ok, "the subscription removed is the one named by the request", un.loc)


# ---------------------------------------------------------------- reactive trigger
def check_reactive(ctx, P, X):
    ra = P.func(f"{LDM}.ldm_service_reactive.LDMServiceReactive.add_provider_data")
    dp = ra.params[1]
    att = P.cls(SV).methods["attend_subscriptions"]
    base = P.cls(SV).methods["add_provider_data"]
    paths = X.explore(ra.node.body)
    n, ok, ret = 0, dp not in FunctionFlow.assigned_names(ra.node.body), True

    def is_insert(xc) -> bool:
        return calls_to(P, ra, xc, base) and isinstance(xc.func, ast.Attribute) and isinstance(xc.func.value, ast.Call) and \
            dotted(xc.func.value.func) == "super" and len(xc.args) == 1 and not xc.keywords and is_name(xc.args[0], dp)

    for p in paths:
        if p.end[0] == "raise":
            continue
        ins = [i for i, xc in p.calls() if is_insert(xc)]
        ret = ret and len(ins) == 1 and p.end[0] == "return" and isinstance(p.end[2], ast.Call) and is_insert(p.end[2])
        for i, xc in p.calls():
            if calls_to(P, ra, xc, att):
                n += 1
                ok = ok and bool(ins) and ins[0] < i
    ctx.ob("C14.reactive", ra.short(), "attend-after-insert", ok and n > 0, "subscriptions are attended after the new object was inserted", ra.loc)
    ctx.ob("C14.reactive", ra.short(), "insert-once-and-report", ret,
           "every path inserts the object exactly once through the base service and returns its index", ra.loc)
