"""Shared enumeration of GeoNetworking receive handlers, sinks and forwarding sites (C01, C06, C07, C08, C20)."""
from __future__ import annotations

import ast
from dataclasses import dataclass, field
from typing import Optional

from ..prog import AnalysisError, ClassInfo, FuncInfo, dotted, unparse
from ..match import pretty

ROUTER = "geonet.router.Router"


@dataclass
class Handler:
    fi: FuncInfo
    ext_cls: Optional[ClassInfo]       # decoded extended header class (None for SHB/beacon: LongPositionVector)
    hdr_var: str                       # local holding the decoded header / PV
    decode_call: ast.Call
    multi_hop: bool
    helpers: list = field(default_factory=list)   # router methods called from the handler that forward (e.g. gn_data_forward_gbc)


@dataclass
class Sink:
    kind: str            # deliver | send | deferred-send | table-update
    fi: FuncInfo
    node: ast.AST
    handler: Handler


def receive_handlers(ctx) -> list:
    """Router methods reached from process_common_header that decode an extended header / SO PV."""
    P = ctx.prog
    router = P.cls(ROUTER)
    pch = P.func(f"{ROUTER}.process_common_header")
    todo, seen, out = [pch], set(), []
    while todo:
        f = todo.pop()
        if f.qual in seen:
            continue
        seen.add(f.qual)
        dec = None
        for c in P.calls_in(f):
            for t in P.call_targets(f, c, count=False):
                if isinstance(t, FuncInfo) and t.name == "decode" and t.cls is not None and \
                        (t.cls.name.endswith("ExtendedHeader") or t.cls.name == "LongPositionVector") and f is not pch:
                    dec = (c, t.cls)
                elif isinstance(t, FuncInfo) and t.cls is router and t.name.startswith("gn_data_indicate"):
                    todo.append(t)
        if dec is not None:
            call, cls = dec
            var = None
            for n in ast.walk(f.node):
                if isinstance(n, ast.Assign) and n.value is call and isinstance(n.targets[0], ast.Name):
                    var = n.targets[0].id
            multi = "sn" in cls.fields
            out.append(Handler(f, cls, var or "?", call, multi))
    # forwarding helpers: router methods called from a handler that (transitively) send
    for h in out:
        stack, seen2 = [h.fi], {h.fi.qual}
        while stack:
            f = stack.pop()
            for c in P.calls_in(f):
                for t in P.call_targets(f, c, count=False):
                    if isinstance(t, FuncInfo) and t.cls is router and t.qual not in seen2 and \
                            not t.name.startswith("gn_data_request") and not t.name.startswith("gn_ls_") \
                            and t.name not in ("duplicate_address_detection", "get_sequence_number"):
                        seen2.add(t.qual)
                        if _sends(P, t):
                            h.helpers.append(t)
                            stack.append(t)
    if len(out) < 8:
        raise AnalysisError(f"only {len(out)} receive handlers found (confirmed: SHB, beacon, TSB, GBC, GAC, GUC, LS request, LS reply)")
    return out


def _sends(P, fi: FuncInfo) -> bool:
    for c in P.calls_in(fi):
        if is_ll_send(P, fi, c) or is_timer_with_packet(P, fi, c):
            return True
        for t in P.call_targets(fi, c, count=False):
            if isinstance(t, FuncInfo) and t.cls is fi.cls and t is not fi and t.name in ("gn_area_cbf_forwarding",):
                return True
    return False


def is_ll_send(P, fi: FuncInfo, c: ast.Call) -> bool:
    if not (isinstance(c.func, ast.Attribute) and c.func.attr == "send" and c.args):
        return False
    for t in P.call_targets(fi, c, count=False):
        if isinstance(t, FuncInfo) and t.cls is not None and any(k.name == "LinkLayer" for k in t.cls.mro()):
            return True
    return False


def is_timer_with_packet(P, fi: FuncInfo, c: ast.Call) -> bool:
    d = dotted(c.func) or ""
    return d.split(".")[-1] == "Timer" and any(kw.arg == "args" for kw in c.keywords)


def sinks_of(ctx, h: Handler) -> list:
    P = ctx.prog
    out = []
    for fi in [h.fi] + h.helpers:
        for c in P.calls_in(fi):
            if is_ll_send(P, fi, c):
                out.append(Sink("send", fi, c, h))
            elif is_timer_with_packet(P, fi, c):
                out.append(Sink("deferred-send", fi, c, h))
            else:
                for t in P.call_targets(fi, c, count=False):
                    if isinstance(t, ClassInfo) and t.name == "GNDataIndication" and (c.args or c.keywords):
                        out.append(Sink("deliver", fi, c, h))
                    elif isinstance(t, FuncInfo) and t.cls is not None and t.cls.name == "LocationTable" \
                            and t.name.startswith("new_") and fi is h.fi:
                        out.append(Sink("table-update", fi, c, h))
    return out


def flow_for(ctx, fi: FuncInfo, h: Handler):
    """Handlers are analysed with the facts of their dispatcher (process_common_header); helpers with those of the handler."""
    return ctx.flows.get(fi, lifted=True)


def packet_expr(sink: Sink) -> Optional[ast.AST]:
    c = sink.node
    if sink.kind == "send":
        return c.args[0]
    if sink.kind == "deferred-send":
        for kw in c.keywords:
            if kw.arg == "args" and isinstance(kw.value, (ast.List, ast.Tuple)):
                return kw.value
    return None


def concat_operands(e: ast.AST) -> list:
    if isinstance(e, ast.BinOp) and isinstance(e.op, ast.Add):
        return concat_operands(e.left) + concat_operands(e.right)
    return [e]


def assembled_packets(fl, sink: Sink, st) -> list:
    """[operand list] for every alternative value of the packet handed to the link layer / timer."""
    pe = packet_expr(sink)
    if pe is None:
        return []
    outs = []
    exprs = pe.elts if isinstance(pe, (ast.List, ast.Tuple)) else [pe]
    for e in exprs:
        for alt in fl.alternatives(e, st):
            ops = concat_operands(alt)
            if any(isinstance(o, ast.Call) and isinstance(o.func, ast.Attribute) and o.func.attr == "encode_to_bytes"
                   for o in ops):
                outs.append(ops)
    return outs


def check_copy_methods(ctx, rule: str, class_quals: list) -> int:
    """Copy-with-one-change methods of frozen dataclasses (`set_x`, `with_x`) must forward every other field unchanged.

    A method counts as a copy method when it returns a construction of its own class (or `cls`/`replace`) and takes
    at most one non-self parameter.  For each dataclass field f: the constructor receives `f=self.f`, except for fields
    whose argument derives from the method's parameter.  Missing keywords fall back to the field default = lost value.
    """
    P = ctx.prog
    n = 0
    for q in class_quals:
        ci = P.cls(q)
        fields = [f for f, (ann, _) in ci.fields.items() if ann is not None]
        for m in ci.methods.values():
            if m.kind != "method" or not (m.name.startswith("set_") or m.name.startswith("with_")):
                continue
            params = m.params[1:]
            if len(params) != 1:
                continue
            fl = ctx.flows.get(m)
            for k, s, st in fl.exits:
                if k != "return" or not isinstance(s.value, ast.Call):
                    continue
                tg = [t for t in P.call_targets(m, s.value, count=False) if isinstance(t, ClassInfo)]
                if not tg or not (tg[0] is ci or ci in tg[0].mro() or tg[0] in ci.mro()):
                    continue
                n += 1
                call = s.value
                given = {}
                tfields = [f for f, (ann, _) in tg[0].fields.items() if ann is not None]
                allf = []
                for c in reversed(tg[0].mro()):
                    for f, (ann, _) in c.fields.items():
                        if ann is not None and f not in allf:
                            allf.append(f)
                for i, a in enumerate(call.args):
                    if i < len(allf):
                        given[allf[i]] = a
                for kw in call.keywords:
                    if kw.arg:
                        given[kw.arg] = kw.value
                changed = []
                for f in allf:
                    if f not in given:
                        ctx.ob(rule, m.short(), f"field:{f}", False,
                               f"{m.name} builds a new {tg[0].name} without `{f}`: the copy silently resets {f} to its default",
                               f"{m.module.rel}:{s.lineno}")
                        continue
                    x = pretty(unparse(fl.expand(given[f], st)))
                    if x == f"self.{f}":
                        ctx.ob(rule, m.short(), f"field:{f}", True, f"{f} forwarded unchanged", f"{m.module.rel}:{s.lineno}")
                    elif params[0] in [nn.id for nn in ast.walk(fl.expand(given[f], st)) if isinstance(nn, ast.Name)]:
                        changed.append(f)
                    else:
                        ctx.ob(rule, m.short(), f"field:{f}", False,
                               f"{m.name} passes `{f}={x[:50]}`: neither the old value nor derived from the argument",
                               f"{m.module.rel}:{s.lineno}")
                ctx.ob(rule, m.short(), "changes-one-field", len(changed) == 1,
                       f"{m.name} changes {changed} (exactly one field expected)", f"{m.module.rel}:{s.lineno}")
    return n


# --------------------------------------------------------------------------------------------
# meaning-level helpers shared by C06 / C07 / C08: argument binding, provenance through helper parameters,
# the packet's source address, the body of duplicate address detection
# --------------------------------------------------------------------------------------------
from .. import sem


def bind_args(callee: FuncInfo, call: ast.Call) -> Optional[dict]:
    """parameter name -> argument expression of `call` (the receiver is bound to the first parameter of a method);
    None when the call uses * / ** unpacking (binding not decidable)."""
    params = callee.params
    off = 1 if callee.kind in ("method", "classmethod", "property") and params else 0
    out = {}
    for i, a in enumerate(call.args):
        if isinstance(a, ast.Starred):
            return None
        if i + off < len(params):
            out[params[i + off]] = a
    for kw in call.keywords:
        if kw.arg is None:
            return None
        out[kw.arg] = kw.value
    if off and callee.kind == "method" and isinstance(call.func, ast.Attribute):
        out[params[0]] = call.func.value
    return out


def ctor_fields(ci: ClassInfo) -> list:
    """Dataclass fields in constructor order (base classes first)."""
    out = []
    for c in reversed(ci.mro()):
        for f, (ann, _) in c.fields.items():
            if ann is not None and f not in out:
                out.append(f)
    return out


def bind_ctor(ci: ClassInfo, call: ast.Call) -> Optional[dict]:
    """field name -> argument expression of a dataclass construction."""
    fields = ctor_fields(ci)
    out = {}
    for i, a in enumerate(call.args):
        if isinstance(a, ast.Starred) or i >= len(fields):
            return None
        out[fields[i]] = a
    for kw in call.keywords:
        if kw.arg is None:
            return None
        out[kw.arg] = kw.value
    return out


def subst_names(expr: ast.AST, amap: dict) -> ast.AST:
    """`expr` with every loaded Name that is a key of `amap` replaced by (a copy of) the mapped expression."""
    import copy

    class S(ast.NodeTransformer):
        def visit_Name(self, n):
            if isinstance(n.ctx, ast.Load) and n.id in amap:
                return copy.deepcopy(amap[n.id])
            return n

        def visit_Lambda(self, n):
            return n
    return S().visit(copy.deepcopy(expr))


def chain_of(h: Handler) -> list:
    return [h.fi] + list(h.helpers)


def to_handler_terms(ctx, h: Handler, fi: FuncInfo, xexpr: ast.AST, _depth: int = 0) -> list:
    """Values of `xexpr` (already expanded in `fi`'s terms: it mentions parameters of fi and immutable local versions)
    rewritten in terms of the receive handler `h`: parameters of a forwarding helper are replaced by the (expanded)
    arguments at every call site inside the handler's call chain.  One result per call path; [] when fi is not reached
    from the handler."""
    if fi is h.fi:
        return [xexpr]
    if _depth > 6:
        return []
    P = ctx.prog
    out = []
    chain = {f.qual for f in chain_of(h)}
    for caller, call in P.callers_of(fi):
        if caller.qual not in chain:
            continue
        amap = bind_args(fi, call)
        if amap is None:
            continue
        cfl = ctx.flows.get(caller, lifted=True)
        cst = cfl.state_at(call)
        xmap = {p: cfl.expand(a, cst) for p, a in amap.items() if not (p == fi.params[0] and fi.kind == "method")}
        out += to_handler_terms(ctx, h, caller, subst_names(xexpr, xmap), _depth + 1)
    return out


def decoded_x(ctx, h: Handler) -> ast.AST:
    """The handler's decode call with locals expanded (`Cls.decode(packet[0:N])` over the handler's own parameter)."""
    fl = ctx.flows.get(h.fi, lifted=True)
    return fl.expand(h.decode_call, fl.state_at(h.decode_call))


def source_pv_x(ctx, h: Handler) -> ast.AST:
    """Expression (handler terms) of the SOURCE position vector of the received packet: the decoded header's `so_pv`,
    or the decoded long position vector itself for SHB / beacon."""
    dec = decoded_x(ctx, h)
    cls = h.ext_cls
    if cls is not None and "so_pv" in ctor_fields(cls):
        return ast.Attribute(value=dec, attr="so_pv", ctx=ast.Load())
    if cls is not None and cls.name == "LongPositionVector":
        return dec
    raise AnalysisError(f"{h.fi.name}: decoded class {cls.name if cls else '?'} has no source position vector")


def source_addr_x(ctx, h: Handler) -> ast.AST:
    return ast.Attribute(value=source_pv_x(ctx, h), attr="gn_addr", ctx=ast.Load())


def must_calls(st, suffix: str) -> list:
    """Call facts of a state whose resolved target ends with `suffix` (the calls certainly made before the state)."""
    return [f for f in st.facts if f.kind == "call" and isinstance(f.xnode, ast.Call)
            and any(t.endswith(suffix) for t in f.targets)]


def dad_on_source(ctx, h: Handler, fi: FuncInfo, st) -> tuple:
    """(ok, description): duplicate_address_detection has certainly been called, before the state `st` of `fi`, on the
    SOURCE address of the packet the handler decoded (not merely on some address)."""
    P = ctx.prog
    dad = P.func(f"{ROUTER}.duplicate_address_detection")
    want = sem.cx(source_addr_x(ctx, h))
    seen = []
    for f in must_calls(st, "Router.duplicate_address_detection"):
        amap = bind_args(dad, f.xnode)
        if not amap or len(dad.params) < 2 or dad.params[1] not in amap:
            continue
        for x in to_handler_terms(ctx, h, fi, amap[dad.params[1]]):
            seen.append(sem.cx(x))
    ok = any(s == want for s in seen)
    return ok, (f"preceded by DAD on the packet's source address `{want[:70]}`" if ok else
                f"NOT preceded on every path by duplicate_address_detection(<source address of the decoded packet> = "
                f"`{want[:70]}`); addresses checked: {[s[:60] for s in seen]}")


def check_dad_body(ctx, rule: str) -> None:
    """duplicate_address_detection(addr) raises DADException exactly when addr EQUALS (==) the local GN address."""
    P = ctx.prog
    fi = P.func(f"{ROUTER}.duplicate_address_detection")
    fl = ctx.flows.get(fi)
    if len(fi.params) != 2:
        raise AnalysisError(f"{fi.qual}: expected exactly one parameter (the address)")
    cond = f"self.mib.itsGnLocalGnAddr == {fi.params[1]}"
    raises = [(s, st) for k, s, st in fl.exits if k == "raise"]
    normal = [(s, st) for k, s, st in fl.exits if k in ("return", "fall")]
    kinds = []
    for s, st in raises:
        exc = s.exc.func if isinstance(s.exc, ast.Call) else s.exc
        r = P.resolve_expr_entity(fi.module, exc) if exc is not None else None
        kinds.append(r.name if isinstance(r, ClassInfo) else "?")
    ok_r = bool(raises) and all(k == "DADException" for k in kinds) and \
        all(sem.holds(sem.facts_of_state(st), cond) for _, st in raises)
    ctx.ob(rule, fi.short(), "raises-when-own-address", ok_r,
           "DADException is raised under `own address == addr` (value equality)" if ok_r else
           f"duplicate_address_detection does not raise DADException exactly under `{cond}` (value equality; an identity "
           f"test never matches a decoded address): raises {kinds} under "
           f"{[sorted(sem.facts_of_state(st)) for _, st in raises]}", fi.loc)
    ok_n = bool(normal) and all(sem.holds(sem.facts_of_state(st), cond, False) for _, st in normal)
    ctx.ob(rule, fi.short(), "returns-only-when-different", ok_n,
           "returns normally only when the address differs from the own address" if ok_n else
           "a normal return is reachable although the address may equal the own address", fi.loc)
