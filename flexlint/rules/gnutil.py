"""Shared enumeration of GeoNetworking receive handlers, sinks and forwarding sites (C01, C06, C07, C08, C20)."""
from __future__ import annotations

import ast
from dataclasses import dataclass, field
from typing import Optional

from ..prog import AnalysisError, ClassInfo, FuncInfo, dotted, unparse
from ..match import pretty

ROUTER = "geonet.router.Router"


@dataclass
class Handler:
    fi: FuncInfo
    ext_cls: Optional[ClassInfo]       # decoded extended header class (None for SHB/beacon: LongPositionVector)
    hdr_var: str                       # local holding the decoded header / PV
    decode_call: ast.Call
    multi_hop: bool
    helpers: list = field(default_factory=list)   # router methods called from the handler that forward (e.g. gn_data_forward_gbc)


@dataclass
class Sink:
    kind: str            # deliver | send | deferred-send | table-update
    fi: FuncInfo
    node: ast.AST
    handler: Handler


def receive_handlers(ctx) -> list:
    """Router methods reached from process_common_header that decode an extended header / SO PV."""
    P = ctx.prog
    router = P.cls(ROUTER)
    pch = P.func(f"{ROUTER}.process_common_header")
    todo, seen, out = [pch], set(), []
    while todo:
        f = todo.pop()
        if f.qual in seen:
            continue
        seen.add(f.qual)
        dec = None
        for c in P.calls_in(f):
            for t in P.call_targets(f, c, count=False):
                if isinstance(t, FuncInfo) and t.name == "decode" and t.cls is not None and \
                        (t.cls.name.endswith("ExtendedHeader") or t.cls.name == "LongPositionVector") and f is not pch:
                    dec = (c, t.cls)
                elif isinstance(t, FuncInfo) and t.cls is router and t.name.startswith("gn_data_indicate"):
                    todo.append(t)
        if dec is not None:
            call, cls = dec
            var = None
            for n in ast.walk(f.node):
                if isinstance(n, ast.Assign) and n.value is call and isinstance(n.targets[0], ast.Name):
                    var = n.targets[0].id
            multi = "sn" in cls.fields
            out.append(Handler(f, cls, var or "?", call, multi))
    # forwarding helpers: router methods called from a handler that (transitively) send
    for h in out:
        stack, seen2 = [h.fi], {h.fi.qual}
        while stack:
            f = stack.pop()
            for c in P.calls_in(f):
                for t in P.call_targets(f, c, count=False):
                    if isinstance(t, FuncInfo) and t.cls is router and t.qual not in seen2 and \
                            not t.name.startswith("gn_data_request") and not t.name.startswith("gn_ls_") \
                            and t.name not in ("duplicate_address_detection", "get_sequence_number"):
                        seen2.add(t.qual)
                        if _sends(P, t):
                            h.helpers.append(t)
                            stack.append(t)
    if len(out) < 8:
        raise AnalysisError(f"only {len(out)} receive handlers found (confirmed: SHB, beacon, TSB, GBC, GAC, GUC, LS request, LS reply)")
    return out


def _sends(P, fi: FuncInfo) -> bool:
    for c in P.calls_in(fi):
        if is_ll_send(P, fi, c) or is_timer_with_packet(P, fi, c):
            return True
        for t in P.call_targets(fi, c, count=False):
            if isinstance(t, FuncInfo) and t.cls is fi.cls and t is not fi and t.name in ("gn_area_cbf_forwarding",):
                return True
    return False


def is_ll_send(P, fi: FuncInfo, c: ast.Call) -> bool:
    if not (isinstance(c.func, ast.Attribute) and c.func.attr == "send" and c.args):
        return False
    for t in P.call_targets(fi, c, count=False):
        if isinstance(t, FuncInfo) and t.cls is not None and any(k.name == "LinkLayer" for k in t.cls.mro()):
            return True
    return False


def is_timer_with_packet(P, fi: FuncInfo, c: ast.Call) -> bool:
    d = dotted(c.func) or ""
    return d.split(".")[-1] == "Timer" and any(kw.arg == "args" for kw in c.keywords)


def sinks_of(ctx, h: Handler) -> list:
    P = ctx.prog
    out = []
    for fi in [h.fi] + h.helpers:
        for c in P.calls_in(fi):
            if is_ll_send(P, fi, c):
                out.append(Sink("send", fi, c, h))
            elif is_timer_with_packet(P, fi, c):
                out.append(Sink("deferred-send", fi, c, h))
            else:
                for t in P.call_targets(fi, c, count=False):
                    if isinstance(t, ClassInfo) and t.name == "GNDataIndication" and (c.args or c.keywords):
                        out.append(Sink("deliver", fi, c, h))
                    elif isinstance(t, FuncInfo) and t.cls is not None and t.cls.name == "LocationTable" \
                            and t.name.startswith("new_") and fi is h.fi:
                        out.append(Sink("table-update", fi, c, h))
    return out


def flow_for(ctx, fi: FuncInfo, h: Handler):
    """Handlers are analysed with the facts of their dispatcher (process_common_header); helpers with those of the handler."""
    return ctx.flows.get(fi, lifted=True)


def packet_expr(sink: Sink) -> Optional[ast.AST]:
    c = sink.node
    if sink.kind == "send":
        return c.args[0]
    if sink.kind == "deferred-send":
        for kw in c.keywords:
            if kw.arg == "args" and isinstance(kw.value, (ast.List, ast.Tuple)):
                return kw.value
    return None


def concat_operands(e: ast.AST) -> list:
    if isinstance(e, ast.BinOp) and isinstance(e.op, ast.Add):
        return concat_operands(e.left) + concat_operands(e.right)
    return [e]


def assembled_packets(fl, sink: Sink, st) -> list:
    """[operand list] for every alternative value of the packet handed to the link layer / timer."""
    pe = packet_expr(sink)
    if pe is None:
        return []
    outs = []
    exprs = pe.elts if isinstance(pe, (ast.List, ast.Tuple)) else [pe]
    for e in exprs:
        for alt in fl.alternatives(e, st):
            ops = concat_operands(alt)
            if any(isinstance(o, ast.Call) and isinstance(o.func, ast.Attribute) and o.func.attr == "encode_to_bytes"
                   for o in ops):
                outs.append(ops)
    return outs


def check_copy_methods(ctx, rule: str, class_quals: list) -> int:
    """Copy-with-one-change methods of frozen dataclasses (`set_x`, `with_x`) must forward every other field unchanged.

    A method counts as a copy method when it returns a construction of its own class (or `cls`/`replace`) and takes
    at most one non-self parameter.  For each dataclass field f: the constructor receives `f=self.f`, except for fields
    whose argument derives from the method's parameter.  Missing keywords fall back to the field default = lost value.
    """
    P = ctx.prog
    n = 0
    for q in class_quals:
        ci = P.cls(q)
        fields = [f for f, (ann, _) in ci.fields.items() if ann is not None]
        for m in ci.methods.values():
            if m.kind != "method" or not (m.name.startswith("set_") or m.name.startswith("with_")):
                continue
            params = m.params[1:]
            if len(params) != 1:
                continue
            fl = ctx.flows.get(m)
            for k, s, st in fl.exits:
                if k != "return" or not isinstance(s.value, ast.Call):
                    continue
                tg = [t for t in P.call_targets(m, s.value, count=False) if isinstance(t, ClassInfo)]
                if not tg or not (tg[0] is ci or ci in tg[0].mro() or tg[0] in ci.mro()):
                    continue
                n += 1
                call = s.value
                given = {}
                tfields = [f for f, (ann, _) in tg[0].fields.items() if ann is not None]
                allf = []
                for c in reversed(tg[0].mro()):
                    for f, (ann, _) in c.fields.items():
                        if ann is not None and f not in allf:
                            allf.append(f)
                for i, a in enumerate(call.args):
                    if i < len(allf):
                        given[allf[i]] = a
                for kw in call.keywords:
                    if kw.arg:
                        given[kw.arg] = kw.value
                changed = []
                for f in allf:
                    if f not in given:
                        ctx.ob(rule, m.short(), f"field:{f}", False,
                               f"{m.name} builds a new {tg[0].name} without `{f}`: the copy silently resets {f} to its default",
                               f"{m.module.rel}:{s.lineno}")
                        continue
                    x = pretty(unparse(fl.expand(given[f], st)))
                    if x == f"self.{f}":
                        ctx.ob(rule, m.short(), f"field:{f}", True, f"{f} forwarded unchanged", f"{m.module.rel}:{s.lineno}")
                    elif params[0] in [nn.id for nn in ast.walk(fl.expand(given[f], st)) if isinstance(nn, ast.Name)]:
                        changed.append(f)
                    else:
                        ctx.ob(rule, m.short(), f"field:{f}", False,
                               f"{m.name} passes `{f}={x[:50]}`: neither the old value nor derived from the argument",
                               f"{m.module.rel}:{s.lineno}")
                ctx.ob(rule, m.short(), "changes-one-field", len(changed) == 1,
                       f"{m.name} changes {changed} (exactly one field expected)", f"{m.module.rel}:{s.lineno}")
    return n
