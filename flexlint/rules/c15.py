"""C15 - GeoNetworking router is safe under concurrent origination, reception and timers.

Decides the schedule-independent necessary conditions: lockset discipline (lockset: every access - or every write /
read-modify-write, as the shared-state table says - to the 13 shared fields of router and location table holds the
lock the table names); atomic check-then-act sections (atomic: no read of a guarded field in one critical section
followed by its write in another section of the same lock; the CBF timer sends only after removing its key, outside
_cbf_lock; duplicate handling cancels the buffered timer inside the section that popped it; the LS reply re-issues
exactly what it popped under _ls_lock, outside that lock; and every critical section of _ls_lock / _cbf_lock /
sequence_number_lock decides on fresh reads - no test inside it uses a local bound BEFORE the lock was taken from
location-table, LS, CBF or sequence-number state); lock order (order: acquired-while-held graph through resolved calls
and wired callbacks acyclic, re-acquisition only of RLocks); position vectors (pv-snapshot: the PV / TST / address
classes are frozen dataclasses without in-place stores; no PV construction takes two or more fields from separate reads
of a shared position vector; and no emitted composite - dict literal or record construction - takes two or more fields
from separate reads of self.ego_position_vector, which a refresh in between would turn into a position that never was
the ego position).
Does not decide the claims as schedule properties (sequence numbers actually observed, exactly-once after the reply),
races that stay inside one critical-section order, nor thread failure through I/O faults (printed as notes only).
"""
from __future__ import annotations

import ast

from ..prog import AnalysisError, ClassInfo, FuncInfo, dotted, unparse
from ..locks import LockAnalysis
from ..summaries import MayRaise, Wiring
from . import lockrules as LR

PROP = "C15"

R = "geonet.router.Router"
LT = "geonet.location_table.LocationTable"
LTE = "geonet.location_table.LocationTableEntry"

# shared-state table: confirmed by reading every access on the pinned tree; one reason per line
TABLE = [
    (R, "sequence_number", "Router.sequence_number_lock", "all", "sequence numbers must be allocated by an atomic read-modify-write"),
    (R, "_cbf_buffer", "Router._cbf_lock", "all", "CBF buffer test/insert/remove race with timer expiry"),
    (R, "_ls_timers", "Router._ls_lock", "all", "LS bookkeeping is shared by requesters, the reply handler and the retransmit timer"),
    (R, "_ls_retransmit_counters", "Router._ls_lock", "all", "LS bookkeeping"),
    (R, "_ls_packet_buffers", "Router._ls_lock", "all", "buffered unicast requests must be appended or flushed, never both"),
    (LTE, "ls_pending", "Router._ls_lock", "write", "ls_pending is the test-and-set flag of gn_ls_request"),
    (R, "ego_position_vector", "Router.ego_position_vector_lock", "rmw", "refresh derives the new PV from the old one"),
    (LT, "loc_t", "LocationTable.loc_t_lock", "all", "dictionary iterated by refresh/get_neighbours while receivers insert"),
    (LTE, "position_vector", "LocationTableEntry.position_vector_lock", "write", "timestamp-guarded replace is a check-then-act"),
    (LTE, "tst", "LocationTableEntry.tst_lock", "write", "PDR bookkeeping swap"),
    (LTE, "pdr", "LocationTableEntry.pdr_lock", "rmw", "EMA update is a read-modify-write"),
    (LTE, "dpl_set", "LocationTableEntry.dpl_lock", "all", "duplicate list test-and-insert"),
    (LTE, "dpl_deque", "LocationTableEntry.dpl_lock", "all", "duplicate list ring"),
]
PV_CLASSES = ["geonet.position_vector.LongPositionVector", "geonet.position_vector.ShortPositionVector",
              "geonet.position_vector.TST", "geonet.gn_address.GNAddress", "geonet.gn_address.MID"]


def run(ctx):
    P = ctx.prog
    ctx.explanation = (
        "Lockset / lock-order analysis (K6). Held locks are computed at every statement from `with <lock>:` regions "
        "(plus the entry lockset of private helpers = intersection over their call sites). Every access to the 13 shared "
        "fields of the router and location table is enumerated through the type resolver and must hold the lock the "
        "shared-state table names; read-then-write sequences on one field must stay inside one critical section; the "
        "acquired-while-held graph (through resolved calls and wired callbacks) must be acyclic and must not re-acquire a "
        "non-reentrant Lock; position-vector classes must be frozen and PVs built from one snapshot. A lockset is "
        "schedule independent, so one evaluation covers every interleaving.")
    ctx.declined = ["pairwise-distinct sequence numbers actually observed / exactly-once LS flush as schedule properties",
                    "races that stay inside one critical-section order (e.g. timer stored after its reply arrived)",
                    "thread failure through I/O faults (printed as notes only)"]
    la = LockAnalysis(ctx)
    wiring = Wiring(P)
    LR.check_lockset(ctx, la, TABLE, "C15.lockset")
    ctx.floor("C15.lockset", 45, "guarded accesses")
    n = LR.check_single_section(ctx, la, TABLE, "C15.atomic")
    # ---- CBF timer: send only after the key was removed in the section that tested it
    fi = P.func(f"{R}._cbf_timeout")
    fl = la.flow(fi)
    sends = [c for c in P.calls_in(fi) if isinstance(c.func, ast.Attribute) and c.func.attr == "send"]
    if not sends:
        raise AnalysisError("C15: _cbf_timeout no longer sends")
    for i, c in enumerate(sends):
        st = fl.state_at(c)
        removed = [f for f in st.facts if f.kind == "call" and "_cbf_buffer" in f.key and
                   ("__delitem__" in f.key or ".pop(" in f.key)]
        ctx.ob("C15.atomic", fi.short(), f"send#{i}:after-removal", bool(removed),
               "CBF timer sends only after its key was removed from _cbf_buffer on every path: " +
               (removed[0].key if removed else "no removal dominates the send"), f"{fi.module.rel}:{c.lineno}")
        ctx.ob("C15.atomic", fi.short(), f"send#{i}:outside-lock", "Router._cbf_lock" not in st.locks,
               f"send happens with locks {list(st.locks)} held", f"{fi.module.rel}:{c.lineno}")
    # ---- CBF forwarding: timer cancel inside the section that popped it
    fi = P.func(f"{R}.gn_area_cbf_forwarding")
    fl = la.flow(fi)
    for c in P.calls_in(fi):
        if isinstance(c.func, ast.Attribute) and c.func.attr == "cancel":
            ctx.ob("C15.atomic", fi.short(), "cancel-under-lock", "Router._cbf_lock" in fl.state_at(c).locks,
                   "duplicate handling cancels the buffered timer inside the _cbf_lock section that popped it",
                   f"{fi.module.rel}:{c.lineno}")
    # ---- LS reply: flush exactly what was popped under the lock
    fi = P.func(f"{R}.gn_data_indicate_ls_reply")
    fl = la.flow(fi)
    flushed = False
    for n_ in ast.walk(fi.node):
        if isinstance(n_, ast.For):
            calls = [c for c in ast.walk(n_) if isinstance(c, ast.Call) and isinstance(c.func, ast.Attribute)
                     and c.func.attr == "gn_data_request_guc"]
            if calls:
                flushed = True
                st = fl.state_at(n_)
                src = unparse(fl.expand(n_.iter, st))
                ok = "_ls_packet_buffers.pop(" in src
                ctx.ob("C15.atomic", fi.short(), "flush-source", ok,
                       f"buffered requests re-issued from `{src[:80]}`; they must come from the pop made under _ls_lock "
                       f"(a get/read would let two replies flush the same buffer)", f"{fi.module.rel}:{n_.lineno}")
                ctx.ob("C15.atomic", fi.short(), "flush-outside-lock", "Router._ls_lock" not in st.locks,
                       "re-issuing buffered requests must not hold _ls_lock (gn_ls_request takes it)", f"{fi.module.rel}:{n_.lineno}")
    if not flushed:
        raise AnalysisError("C15: LS reply handler no longer flushes buffered requests")
    # check-then-act inside a critical section decides on values READ inside that section: a condition that depends on a
    # local bound BEFORE the lock was taken from shared state (location table, LS / CBF bookkeeping) acts on a stale snapshot
    SHARED = ("self.location_table", "self._ls_", "self._cbf_", "self.sequence_number")
    n_sec = 0
    for fi in P.cls(R).methods.values():
        fl = la.flow(fi)
        for w in [n for n in ast.walk(fi.node) if isinstance(n, ast.With) and id(n) in fl.before]:
            lk = [fl._lock_key_through_locals(it.context_expr, fl.before[id(w)]) for it in w.items]
            if not any(k in ("Router._ls_lock", "Router._cbf_lock", "Router.sequence_number_lock") for k in lk if k):
                continue
            n_sec += 1
            stale = []
            for test in [x.test for x in ast.walk(w) if isinstance(x, (ast.If, ast.While, ast.IfExp))]:
                for nm in [x for x in ast.walk(test) if isinstance(x, ast.Name) and isinstance(x.ctx, ast.Load)]:
                    try:
                        st = fl.state_at(nm)
                    except AnalysisError:
                        continue
                    for d in fl.reaching(nm.id, st):
                        if d.kind == "param" or d.value is None or d.stmt is None:
                            continue
                        inside = any(x is d.stmt for x in ast.walk(w))
                        src = unparse(d.value)
                        if not inside and any(s_ in src for s_ in SHARED):
                            stale.append((nm.id, d.stmt.lineno, src[:60]))
            ctx.ob("C15.atomic", fi.short(), f"section@{_ord_with(fi, w)}:decides-on-fresh-reads", not stale,
                   "the critical section tests only values read inside it" if not stale else
                   f"the critical section decides on `{stale[0][0]}`, bound at line {stale[0][1]} from `{stale[0][2]}` BEFORE the lock was taken: "
                   "another thread can change that state in between (check-then-act on a stale snapshot)", f"{fi.module.rel}:{w.lineno}")
    ctx.extra["critical_sections_examined"] = n_sec
    # ---- publication order between the location table (placeholder entry) and the pending-lookup bookkeeping.
    # gn_ls_request makes the placeholder LocTE and the buffer entry in ONE _ls_lock section.  A reader that consults both
    # without holding the lock across them must read the table FIRST and the bookkeeping (under the lock) SECOND: whoever then
    # sees the placeholder also sees the pending lookup.  The other order leaves a window in which the placeholder (empty
    # position vector) is taken for a resolved destination and the unicast leaves before any LS Reply.
    lsr = P.func(f"{R}.gn_ls_request")
    lfl = la.flow(lsr)
    pubs = [c for c in P.calls_in(lsr) if isinstance(c.func, ast.Attribute) and c.func.attr == "ensure_entry"]
    bufs = [n_ for n_ in ast.walk(lsr.node) if isinstance(n_, ast.Assign) and isinstance(n_.targets[0], ast.Subscript) and
            dotted(n_.targets[0].value) == "self._ls_packet_buffers"]
    if not pubs or not bufs:
        raise AnalysisError("C15: gn_ls_request no longer creates the placeholder entry / the buffer entry")

    def section_of(fi_, node):
        return next((w for w in ast.walk(fi_.node) if isinstance(w, ast.With) and any(x is node for x in ast.walk(w)) and
                     any((dotted(it.context_expr) or "").endswith("_ls_lock") for it in w.items)), None)
    same = section_of(lsr, pubs[0]) is not None and section_of(lsr, pubs[0]) is section_of(lsr, bufs[0])
    ctx.ob("C15.atomic", lsr.short(), "placeholder-and-buffer-in-one-section", same,
           "the placeholder LocTE and the buffer entry become visible in one _ls_lock section", f"{lsr.module.rel}:{pubs[0].lineno}")
    guc = P.func(f"{R}.gn_data_request_guc")
    gfl = la.flow(guc)
    tbl = [c for c in P.calls_in(guc) if isinstance(c.func, ast.Attribute) and c.func.attr == "get_entry" and
           dotted(c.func.value) == "self.location_table"]
    pend = [n_ for n_ in ast.walk(guc.node) if isinstance(n_, ast.Compare) and any(isinstance(o, (ast.In, ast.NotIn)) for o in n_.ops) and
            any(dotted(x) == "self._ls_packet_buffers" for x in n_.comparators)]
    if not tbl or not pend:
        raise AnalysisError("C15: gn_data_request_guc no longer consults the location table and the pending-lookup buffers")
    top = guc.node.body

    def top_index(node):
        return next(i for i, st_ in enumerate(top) if any(x is node for x in ast.walk(st_)))
    held_across = section_of(guc, tbl[0]) is not None and section_of(guc, tbl[0]) is section_of(guc, pend[0])
    ordered = all(top_index(t) < top_index(p_) or (top_index(t) == top_index(p_) and (t.lineno, t.col_offset) < (p_.lineno, p_.col_offset))
                  for t in tbl for p_ in pend)
    ctx.ob("C15.atomic", guc.short(), "table-read-before-pending-check", held_across or ordered,
           "the destination's LocTE is read before the pending-lookup bookkeeping (or both under one _ls_lock section)" if held_across or ordered else
           "the pending-lookup bookkeeping is read BEFORE the location table and the lock is released in between: a lookup started by "
           "another thread in the window leaves its placeholder LocTE visible with `pending` already read as False - the GeoUnicast is "
           "sent at once with an empty destination position vector instead of being buffered", f"{guc.module.rel}:{tbl[0].lineno}")
    ctx.floor("C15.atomic", 12)
    # ---- lock order
    LR.check_order(ctx, la, {"Router", "LocationTable", "LocationTableEntry"}, "C15.order", wiring)
    ctx.floor("C15.order", 3)
    # ---- immutable PVs and single snapshot
    for q in PV_CLASSES:
        ci = P.cls(q)
        ctx.ob("C15.pv-snapshot", ci.qual[10:], "frozen", ci.dataclass and ci.frozen,
               f"{ci.name} must be a frozen dataclass (PVs are shared between threads without copying)",
               f"{ci.module.rel}:{ci.node.lineno}")
        stores = []
        for m in ci.methods.values():
            for n_ in ast.walk(m.node):
                if isinstance(n_, ast.Attribute) and isinstance(n_.ctx, (ast.Store, ast.Del)) and \
                        isinstance(n_.value, ast.Name) and n_.value.id == "self":
                    stores.append(f"{m.name}:{n_.attr}")
                if isinstance(n_, ast.Call) and (dotted(n_.func) or "").endswith("__setattr__"):
                    stores.append(f"{m.name}:__setattr__")
        ctx.ob("C15.pv-snapshot", ci.qual[10:], "no-in-place-mutation", not stores,
               f"in-place stores in {ci.name}: {stores or 'none'}", f"{ci.module.rel}:{ci.node.lineno}")
    router = P.cls(R)
    for m in router.methods.values():
        for c in P.calls_in(m):
            tg = [t for t in P.call_targets(m, c, count=False) if isinstance(t, ClassInfo)
                  and t.name in ("LongPositionVector", "ShortPositionVector")]
            if not tg:
                continue
            direct = [kw.arg for kw in c.keywords if kw.arg and ".ego_position_vector." in unparse(kw.value)
                      or (kw.arg and ".position_vector." in unparse(kw.value))]
            ctx.ob("C15.pv-snapshot", m.short(), f"{tg[0].name}@{_ord(P, m, c)}", len(direct) < 2,
                   f"{tg[0].name} built from {len(direct)} separate reads of a shared position vector ({direct}); "
                   "fields must come from one snapshot (a local bound once)", f"{m.module.rel}:{c.lineno}")
    # any composite value (dict literal / call) built from two or more separate reads of the shared ego position vector can
    # mix the fields of two different positions (refresh_ego_position_vector re-binds the attribute between the reads)
    for m in router.methods.values():
        k_ = 0
        for n_ in ast.walk(m.node):
            if not isinstance(n_, (ast.Dict, ast.Call)):
                continue
            # values that are EMITTED (records / dict literals handed on), not arguments of a geometric decision function
            if isinstance(n_, ast.Call) and not any(isinstance(t, ClassInfo) for t in P.call_targets(m, n_, count=False)):
                continue
            parts = (n_.values if isinstance(n_, ast.Dict) else list(n_.args) + [kw.value for kw in n_.keywords])
            reads = [p_ for p_ in parts if p_ is not None and isinstance(p_, ast.Attribute) and dotted(p_.value) == "self.ego_position_vector"]
            if len(parts) and any(isinstance(p_, ast.Attribute) and dotted(p_.value) == "self.ego_position_vector" for p_ in parts if p_ is not None):
                k_ += 1
                ctx.ob("C15.pv-snapshot", m.short(), f"composite#{k_}", len(reads) < 2,
                       "fields of the ego position taken from one read" if len(reads) < 2 else
                       f"`{unparse(n_)[:90]}` takes {len(reads)} fields from {len(reads)} separate reads of self.ego_position_vector: a position "
                       "refresh between the reads yields a (latitude, longitude) pair that never was the ego position", f"{m.module.rel}:{n_.lineno}")
    ctx.floor("C15.pv-snapshot", 12)
    # ---- information: timer/thread targets that can die from I/O faults
    mr = MayRaise(P, wiring)
    for name in ("_cbf_timeout", "_ls_retransmit", "beacon_service_thread"):
        f = P.func(f"{R}.{name}")
        esc = mr.of(f)
        ctx.note(f"timer/thread target {name}: may-raise = {sorted(esc) or 'nothing'} (I/O faults; not an interleaving property)")
    ctx.extra["lock_kinds"] = {k: v for k, v in la.lock_kinds.items() if k.split('.')[0] in ("Router", "LocationTable", "LocationTableEntry")}


def _ord(P, m, c) -> int:
    same = [x for x in P.calls_in(m) if unparse(x.func) == unparse(c.func)]
    return same.index(c)


def _ord_with(fi, w) -> int:
    ws = [n for n in ast.walk(fi.node) if isinstance(n, ast.With)]
    return ws.index(w)
