"""Cross-cutting structural lints shared by several properties.

zero_truthiness: a quantity for which 0 is a meaningful value - an int / float (identifier, hop limit, sequence number,
channel busy ratio, chain length, speed ...) or a member of an enumeration that has a member valued 0 - is never tested for
truthiness.  `if x:` / `if not x:` / `x and ...` in a condition treats the meaningful 0 like "absent"; absence has to be tested
with `is None`.  The types come from the program model (annotations of parameters, dataclass fields and attributes, return
annotations of resolved callees); values of unknown type are not judged.
"""
from __future__ import annotations

import ast

from ..prog import AnalysisError, dotted, unparse
from .. import sem

# (module suffix, function qualname suffix, tested expression) -> reason.  Each entry was read and confirmed harmless.
ALLOWED = {
    ("facilities.local_dynamic_map.ldm_classes", "TimestampIts.initialize_with_utc_timestamp_seconds", "utc_timestamp_seconds"):
        "0 (1 January 1970) is not a time any caller passes; the falsy case means `use the current time`",
}


def _bare_operands(test: ast.AST) -> list:
    out = []

    def collect(t):
        if isinstance(t, ast.UnaryOp) and isinstance(t.op, ast.Not):
            collect(t.operand)
        elif isinstance(t, ast.BoolOp):
            for v in t.values:
                collect(v)
        elif isinstance(t, (ast.Name, ast.Attribute)):
            out.append(t)
    collect(test)
    return out


def zero_truthiness(ctx, rule: str, module_prefixes: tuple, min_conditions: int, exclude_modules: tuple = ()) -> None:
    P = ctx.prog
    n_cond = 0
    for fi in P.iter_funcs():
        mn = fi.module.name
        short_mod = mn[len("flexstack."):] if mn.startswith("flexstack.") else mn
        if fi.module.is_data or not any(short_mod.startswith(p) for p in module_prefixes) or any(short_mod.startswith(p) for p in exclude_modules):
            continue
        bad = []
        for node in ast.walk(fi.node):
            test = node.test if isinstance(node, (ast.If, ast.IfExp, ast.While)) else None
            if test is None:
                continue
            n_cond += 1
            for b in _bare_operands(test):
                try:
                    ts = P.expr_types(fi, b)
                except Exception:  # noqa
                    continue
                why = None
                if any(str(t) in ("builtin:int", "builtin:float") for t in ts) and not any(str(t) == "builtin:bool" for t in ts):
                    why = "a number"
                for t in ts:
                    c_ = P.classes.get(t) if isinstance(t, str) else None
                    if c_ is not None and c_.is_enum:
                        z = [k for k, v in c_.enum_members.items() if v == 0 and not isinstance(v, bool)]
                        if z:
                            why = f"a {c_.name}, whose member {z[0]} is 0"
                if why is None:
                    continue
                key = (short_mod, fi.short()[len(short_mod) + 1:], unparse(b))
                if key in ALLOWED:
                    continue
                bad.append((unparse(b), why, node.lineno))
        if bad:
            ctx.ob(rule, fi.short(), f"truthiness-of:{sem.cx(ast.parse(bad[0][0], mode='eval').body)}", False,
                   f"`{bad[0][0]}` is {bad[0][1]}, and is tested for truthiness (line {bad[0][2]}): the value 0 is treated like an absent "
                   "value - test `is None` (or compare explicitly) instead", f"{fi.module.rel}:{bad[0][2]}")
    ctx.ob(rule, "+".join(module_prefixes), "conditions-examined", True,
           f"{n_cond} conditions examined: no number / zero-valued enumeration member is tested for truthiness", "")
    if n_cond < min_conditions:
        raise AnalysisError(f"{rule}: only {n_cond} conditions found in {module_prefixes} (floor {min_conditions})")


# property -> (module prefixes, floor on the number of conditions, excluded prefixes): every package is judged by the property
# whose quantities live there
ZERO_TRUTHINESS = {
    "C01": (("btp",), 15, ()),
    "C08": (("geonet.location_table", "geonet.position_vector", "geonet.gn_address"), 20, ()),
    "C09": (("security",), 80, ()),
    "C10": (("facilities.ca_basic_service", "facilities.vru_awareness_service.vam_transmission_management"), 80, ()),
    "C12": (("facilities.local_dynamic_map",), 100, ()),
    "C17": (("facilities.decentralized_environmental_notification_service", "applications"), 5, ()),
    "C18": (("facilities.vru_awareness_service.vru_clustering", "facilities.vru_awareness_service.vam_reception_management"), 30, ()),
    "C19": (("management",), 10, ()),
    "C20": (("geonet",), 100, ("geonet.location_table", "geonet.position_vector", "geonet.gn_address")),
}
CLAIM = ("Cross-cutting: in the modules this property's quantities live in, no number and no member of an enumeration that has a "
         "member valued 0 is tested for truthiness (`if x:` treats a meaningful 0 like an absent value); types come from the "
         "program model, values of unknown type are not judged (zero-truthiness).")


def apply(ctx, prop: str) -> None:
    spec = ZERO_TRUTHINESS.get(prop)
    if spec is not None:
        zero_truthiness(ctx, f"{prop}.zero-truthiness", spec[0], spec[1], spec[2])
