"""C03 - secured packets are delivered only if authentic and untampered.

Decides the sanitiser discipline: every call of the common-header dispatcher lies either under "itsGnSecurity is not
ENABLED" (unsecured-drop) or under "verify() reported SUCCESS" where the verify request carries the received bytes, the
dispatched bytes are the plain_message of that same confirm and the secured path holds exactly one verify() call
(verified-dispatch); SUCCESS is constructed only under a true backend.verify_with_pk(...) over the re-encoded tbsData of
the same decoded message, with the message's own signature, under the verification key of the resolved ticket, and the
delivered bytes are the payload inside that tbsData (success-needs-signature); that ticket is not None, is an
authorization ticket, passed Certificate.verify with the service's backend and comes only from the certificate
library's signer lookups on the message's own signer field (signer-vouched); the library's digest lookup is an exact-key lookup and its
chain lookup returns only an admitted ticket found under the HashedId8 of the message's own certificate or a freshly
built one that verified under an issuer taken from the library's own dictionaries (library-returns-verified); every
truthy exit of Certificate.verify carries the signature check under the issuer's (or, marked self-signed, its own)
explicit key, issuer correspondence and permission containment, and verify_signature answers False from its exception
handler (cert-verify); the ECDSA primitive answers other than False only with the result of the library's
VerifyingKey.verify over the caller's data, r/s and x/y with SHA-256 (backend); the security switches the receive path
reads keep their configured value: MIB is frozen and Router.mib is bound at construction, a later binding must be a copy
that carries itsGnSecurity and itsGnSnDecapResultHandling over (switch-stable); the security coder hands its parameter
unchanged to the ASN.1 library and encode / decode pairs name one type (coder).
Does not decide cryptographic strength, OER parser behaviour under bit flips / trailing bytes (value level), nor
histories of forged chains beyond trust-store closure (C09).
"""
from __future__ import annotations

import ast
import re

from ..prog import AnalysisError, ClassInfo, FuncInfo, dotted, unparse
from ..match import pretty
from .. import sem
from . import secutil as SU
from .secutil import norm

PROP = "C03"
ROUTER = "geonet.router.Router"
VS = "security.verify_service.VerifyService"
LIB = "security.certificate_library.CertificateLibrary"

XROOT = "SECURITY_CODER.decode_etsi_ts_103097_data_signed(request.message)['content'][1]"


def success_sites(ctx, fi):
    P = ctx.prog
    out = []
    for c in P.calls_in(fi):
        for t in P.call_targets(fi, c, count=False):
            if isinstance(t, ClassInfo) and t.name == "SNVERIFYConfirm":
                for kw in c.keywords:
                    if kw.arg == "report":
                        v = P.try_fold(fi.module, kw.value)
                        if isinstance(v, tuple) and v[0] == "enum" and v[2] == "SUCCESS":
                            out.append(c)
                        elif v is None:
                            out.append(c)     # non-constant report: treat as possibly SUCCESS
                if c.args:
                    out.append(c)
    return out


def kw_or_pos(call: ast.Call, name: str, pos: int):
    for kw in call.keywords:
        if kw.arg == name:
            return kw.value
    return call.args[pos] if pos < len(call.args) else None


def show(e) -> str:
    return pretty(unparse(e)) if e is not None else "<absent>"


def src(s: str) -> ast.AST:
    return ast.parse(s, mode="eval").body


def bytes_params(fi) -> list:
    a = fi.node.args
    return [x.arg for x in a.posonlyargs + a.args + a.kwonlyargs if x.annotation is not None and dotted(x.annotation) == "bytes"]


def enum_is(P, mod, e, enum_cls: str, member: str) -> bool:
    v = P.try_fold(mod, e)
    return isinstance(v, tuple) and len(v) == 3 and v[0] == "enum" and v[1].split(".")[-1] == enum_cls and v[2] == member


def bind_call(callee: FuncInfo, call: ast.Call) -> dict:
    """arguments of an in-repo call bound to the callee's parameter names"""
    params = callee.params
    off = 1 if callee.kind in ("method", "classmethod") and params else 0
    out = {}
    for i, a in enumerate(call.args):
        if i + off < len(params):
            out[params[i + off]] = a
    for kw in call.keywords:
        if kw.arg:
            out[kw.arg] = kw.value
    return out


def bind_fields(ci: ClassInfo, call: ast.Call) -> dict:
    """arguments of a dataclass construction bound to the field names"""
    names = []
    for c in reversed(ci.mro()):
        for f, (ann, _) in c.fields.items():
            if ann is not None and f not in names:
                names.append(f)
    out = {}
    for i, a in enumerate(call.args):
        if i < len(names):
            out[names[i]] = a
    for kw in call.keywords:
        if kw.arg:
            out[kw.arg] = kw.value
    return out


def access_path(e: ast.AST):
    """(base expression, [('.', attr) | ('[', constant key)] from the base outwards)"""
    steps = []
    while True:
        if isinstance(e, ast.Attribute):
            steps.append((".", e.attr))
            e = e.value
        elif isinstance(e, ast.Subscript) and isinstance(e.slice, ast.Constant):
            steps.append(("[", e.slice.value))
            e = e.value
        else:
            break
    return e, list(reversed(steps))


def run(ctx):
    P = ctx.prog
    ctx.explanation = (
        "Guard / provenance rules (K1, K3) forming a sanitiser discipline from the link layer to delivery. Sinks are found "
        "by role on every run: every call of the common-header dispatcher, every construction of SNVERIFYConfirm that can "
        "carry SUCCESS, every non-None return of the certificate library's signer lookups, every truthy return of "
        "Certificate.verify / verify_signature / the ECDSA primitive. At each sink the must-facts of all paths have to "
        "contain the listed checks, and the values involved (signed bytes, signature, key, delivered bytes) must be "
        "projections of the same decoded message (access-path comparison after expanding locals). The suite replaces "
        "verify(), the library and the certificates by mocks; the rules read the real functions.")
    ctx.declined = ["cryptographic strength", "OER parser behaviour under bit flips / trailing bytes (value level)",
                    "histories of forged chains beyond trust-store closure (C09)"]
    router = P.cls(ROUTER)
    pch = P.func(f"{ROUTER}.process_common_header")
    vf = P.func(f"{VS}.verify")
    # ---- (1),(2) dispatcher calls
    n = 0
    for m in router.methods.values():
        fl = ctx.flows.get(m)
        rx = [p for p in bytes_params(m)]
        for c in P.calls_in(m):
            if pch not in [t for t in P.call_targets(m, c, count=False) if isinstance(t, FuncInfo)]:
                continue
            n += 1
            st = fl.state_at(c)
            fs = sem.facts_of_state(st)
            loc = f"{m.module.rel}:{c.lineno}"
            # a must-fact `<verify service>.verify(<request>).report == ReportVerify.SUCCESS`
            vcall = None
            for f in st.facts:
                if f.kind != "cond" or not f.pol or not isinstance(f.xnode, ast.Compare) or len(f.xnode.ops) != 1 \
                        or not isinstance(f.xnode.ops[0], ast.Eq):
                    continue
                for x, y in ((f.xnode.left, f.xnode.comparators[0]), (f.xnode.comparators[0], f.xnode.left)):
                    if enum_is(P, m.module, y, "ReportVerify", "SUCCESS") and isinstance(x, ast.Attribute) and x.attr == "report" \
                            and isinstance(x.value, ast.Call) and vf in P.call_targets(m, x.value, count=False):
                        vcall = x.value
            if vcall is not None:
                ctx.ob("C03.verified-dispatch", m.short(), f"dispatch#{n}:report-success", True,
                       "dispatch guarded by verify(...).report == SUCCESS", loc)
                req = bind_call(vf, vcall).get(vf.params[1]) if len(vf.params) > 1 else None
                msg = None
                if isinstance(req, ast.Call):
                    tg = [t for t in P.call_targets(m, req, count=False) if isinstance(t, ClassInfo)]
                    if len(tg) == 1:
                        msg = bind_fields(tg[0], req).get("message")
                ok_msg = isinstance(msg, ast.Name) and msg.id in rx
                ctx.ob("C03.verified-dispatch", m.short(), f"dispatch#{n}:verifies-received-bytes", ok_msg,
                       f"the verify request carries `{show(msg)}` as message; must be the received bytes ({'/'.join(rx) or 'no bytes parameter'})", loc)
                arg = fl.expand(c.args[0], st) if c.args else None
                ok_plain = isinstance(arg, ast.Attribute) and arg.attr == "plain_message" and unparse(arg.value) == unparse(vcall)
                ctx.ob("C03.verified-dispatch", m.short(), f"dispatch#{n}:delivers-verified-bytes", ok_plain,
                       f"dispatched bytes are `{show(arg)[:90]}`; must be the plain_message of that same verify confirm", loc)
            else:
                insecure = sem.holds(fs, "self.mib.itsGnSecurity == GnSecurity.ENABLED", False)
                ctx.ob("C03.unsecured-drop", m.short(), f"dispatch#{n}", insecure,
                       "common-header processing of an UNVERIFIED packet " +
                       ("only when itsGnSecurity != ENABLED" if insecure else
                        "is reachable while itsGnSecurity == ENABLED (no `security enabled -> drop` guard and no SUCCESS "
                        "report on this path): an unsecured packet would be delivered. Facts: " +
                        "; ".join(sorted(a for a in fs if "nh" in a or "Security" in a))[:300]),
                       loc)
    if n < 2:
        raise AnalysisError(f"C03: {n} dispatcher calls found (confirmed: 2)")
    # the verify call and the report test use the same confirm object by construction (expansion); verify_service None => drop
    psh = P.func(f"{ROUTER}.process_security_header")
    vcalls = [c for c in P.calls_in(psh) if vf in P.call_targets(psh, c, count=False)]
    ctx.ob("C03.verified-dispatch", psh.short(), "single-verify", len(vcalls) == 1,
           f"{len(vcalls)} verify() call(s) in the secured-packet path", psh.loc)

    # ---- (3),(4) SUCCESS needs the signature check over the same message under a vouched ticket
    fl = ctx.flows.get(vf)
    sites = success_sites(ctx, vf)
    if not sites:
        raise AnalysisError("C03: no SUCCESS construction found in VerifyService.verify")
    rq = vf.params[1]
    xroot = XROOT.replace("request.", rq + ".")
    confirm = P.cls("security.sn_sap.SNVERIFYConfirm") if any(k.endswith("sn_sap.SNVERIFYConfirm") for k in P.classes) else None
    for i, c in enumerate(sites):
        st = fl.state_at(c)
        loc = f"{vf.module.rel}:{c.lineno}"
        con = vf.short()
        prim = None
        for f in st.facts:
            if f.kind == "cond" and f.pol and isinstance(f.xnode, ast.Call) and isinstance(f.xnode.func, ast.Attribute) \
                    and f.xnode.func.attr == "verify_with_pk":
                prim = f.xnode
        ctx.ob("C03.success-needs-signature", con, f"success#{i}:guarded", prim is not None,
               "SUCCESS is constructed only under a true result of backend.verify_with_pk(...)" if prim is not None else
               "SUCCESS can be constructed on a path where no backend.verify_with_pk(...) result is established as true "
               "(cached / short-circuited / inverted check)", loc)
        if prim is None:
            continue
        ctx.ob("C03.success-needs-signature", con, f"success#{i}:backend", dotted(prim.func.value) == "self.backend",
               f"primitive invoked on `{show(prim.func.value)}`", loc)
        b = _bind(prim, ("data", "signature", "pk"))
        data, sig, pk = b.get("data"), b.get("signature"), b.get("pk")
        ctx.ob("C03.success-needs-signature", con, f"success#{i}:signed-bytes",
               data is not None and sem.same(data, f"SECURITY_CODER.encode_to_be_signed_data({xroot}['tbsData'])"),
               f"verified bytes = `{show(data)[:140]}`; must be the re-encoded tbsData of the received message", loc)
        ctx.ob("C03.success-needs-signature", con, f"success#{i}:signature", sig is not None and sem.same(sig, f"{xroot}['signature']"),
               f"signature = `{show(sig)[:120]}`; must be the received message's signature", loc)
        ticket, steps = access_path(pk) if pk is not None else (None, [])
        key_ok = steps == [(".", "certificate"), ("[", "toBeSigned"), ("[", "verifyKeyIndicator"), ("[", 1)]
        ctx.ob("C03.success-needs-signature", con, f"success#{i}:key", key_ok,
               f"key = `{show(pk)[:120]}`; must be the verification key of the resolved authorization ticket", loc)
        plain = bind_fields(confirm, c).get("plain_message") if confirm is not None else kw_or_pos(c, "plain_message", 5)
        pm = fl.expand(plain, st) if plain is not None else None
        ctx.ob("C03.success-needs-signature", con, f"success#{i}:delivered-bytes",
               pm is not None and sem.same(pm, f"{xroot}['tbsData']['payload']['data']['content'][1]"),
               f"plain_message = `{show(pm)[:140]}`; must be the payload inside the SAME signed tbsData", loc)
        # ---- ticket facts: about the very object whose key was used
        if not key_ok:
            ticket = ast.Name(id="<no ticket>", ctx=ast.Load())
        tk = unparse(ticket)
        def holds_on_ticket(atom: str) -> bool:
            return any(f.kind == "cond" and tk in f.xkey and atom in sem.atoms(f.xnode, f.pol) for f in st.facts)
        t_verify = ast.Call(func=ast.Attribute(value=ticket, attr="verify", ctx=ast.Load()), args=[src("self.backend")], keywords=[])
        t_verify_kw = ast.Call(func=ast.Attribute(value=ticket, attr="verify", ctx=ast.Load()), args=[],
                               keywords=[ast.keyword(arg="backend", value=src("self.backend"))])
        t_is_at = ast.Call(func=ast.Attribute(value=ticket, attr="is_authorization_ticket", ctx=ast.Load()), args=[], keywords=[])
        ctx.ob("C03.signer-vouched", con, f"success#{i}:verify(self.backend)",
               holds_on_ticket(sem.atoms(t_verify, True)[0]) or holds_on_ticket(sem.atoms(t_verify_kw, True)[0]),
               f"SUCCESS requires `{show(t_verify)}`: ticket chain verified (Certificate.verify)", loc)
        ctx.ob("C03.signer-vouched", con, f"success#{i}:is_authorization_ticket()", holds_on_ticket(sem.atoms(t_is_at, True)[0]),
               f"SUCCESS requires `{show(t_is_at)}`: signer is an authorization ticket", loc)
        not_none = sem.atoms(ast.Compare(left=ticket, ops=[ast.IsNot()], comparators=[ast.Constant(None)]), True)[0]
        ctx.ob("C03.signer-vouched", con, f"success#{i}:not-none", holds_on_ticket(not_none) or holds_on_ticket(sem.atoms(ticket, True)[0]),
               "ticket is not None", loc)
        allowed = (f"self.certificate_library.verify_sequence_of_certificates({xroot}['signer'][1], self.backend)",
                   f"self.certificate_library.get_authorization_ticket_by_hashedid8({xroot}['signer'][1])", "None")
        if isinstance(ticket, ast.Name) and ticket.id.split("@")[0] in st.defs:
            cands = [(d.xvalue, getattr(d.stmt, "lineno", 0)) for d in fl.reaching(ticket.id.split("@")[0], st)]
        else:
            cands = [(ticket, c.lineno)]
        for v, line in cands:
            ok_src = v is not None and any(sem.same(v, a) for a in allowed)
            ctx.ob("C03.signer-vouched", con, f"success#{i}:source:{sem.cx(v)[:60] if v is not None else '<opaque>'}", ok_src,
                   f"ticket candidate comes from `{show(v)[:150]}`; only the certificate library's signer lookups on the message's "
                   f"own signer field may provide it", f"{vf.module.rel}:{line}")
    ctx.floor("C03.success-needs-signature", 6)
    ctx.floor("C03.signer-vouched", 5)

    # ---- (5) the library only returns known or freshly verified tickets
    library_returns(ctx)
    switch_stable(ctx)
    ctx.floor("C03.switch-stable", 2)
    coder_passthrough(ctx)
    # ---- (6),(7)
    SU.cert_verify_conjuncts(ctx, "C03.cert-verify")
    backend_primitive(ctx, "C03.backend")


def coder_passthrough(ctx) -> None:
    """The security coder hands exactly what it is given to the ASN.1 library: each encode_* / decode_* method returns
    `self.asn_coder.<encode|decode>(<type name>, <its own parameter>)` with the parameter untouched (no strip / slice / copy
    with changes), and an encode / decode pair of one structure names the same type.  A decoder that "normalises" the received
    octets first (e.g. strips trailing zero octets) cuts into signatures that end in 0x00: authentic messages are rejected."""
    P = ctx.prog
    sc = P.cls("security.security_coder.SecurityCoder")
    names = {}
    n = 0
    for nm, fi in sorted(sc.methods.items()):
        if nm.startswith("__") or not (nm.startswith("encode") or nm.startswith("decode")):
            continue
        n += 1
        fl = ctx.flows.get(fi)
        rets = [(s_, st) for k, s_, st in fl.exits if k == "return"]
        ok, why, tname = False, "no single return of a library call", None
        par = fi.params[1] if len(fi.params) == 2 else None
        if len(rets) == 1 and par is not None and isinstance(rets[0][0].value, ast.Call):
            c = rets[0][0].value
            direction = "encode" if nm.startswith("encode") else "decode"
            if isinstance(c.func, ast.Attribute) and c.func.attr == direction and sem.same(fl.expand(c.func.value, rets[0][1]), "self.asn_coder") \
                    and len(c.args) == 2 and not c.keywords:
                tname = P.try_fold(fi.module, c.args[0])
                arg = fl.expand(c.args[1], rets[0][1])
                rebound = [d for d in fl.reaching(par, rets[0][1]) if d.kind != "param"]
                if isinstance(arg, ast.Name) and arg.id == par and not rebound and isinstance(tname, str):
                    ok = True
                else:
                    why = f"the library is given `{sem.cx(arg)[:60]}`" + (f" (`{par}` is rebound first)" if rebound else "") + f", not the parameter `{par}` itself"
            else:
                why = f"returns `{sem.cx(c)[:60]}`"
        ctx.ob("C03.coder", fi.short(), "passthrough", ok,
               f"hands its parameter unchanged to asn_coder.{'encode' if nm.startswith('encode') else 'decode'}('{tname}', ...)" if ok else
               f"{nm} does not hand its parameter unchanged to the ASN.1 library: {why} - octets of an authentic message (e.g. a signature "
               "ending in 0x00) are altered before decoding / after encoding", fi.loc)
        if ok:
            names.setdefault(nm.split("_", 1)[1], {})[nm.split("_", 1)[0]] = tname
    for base, d in sorted(names.items()):
        if len(d) == 2:
            ctx.ob("C03.coder", sc.qual[10:], f"pair:{base}", d["encode"] == d["decode"],
                   f"encode_{base} and decode_{base} use the same ASN.1 type ({d['encode']} / {d['decode']})",
                   f"{sc.module.rel}:{sc.node.lineno}")
    if n < 4:
        raise AnalysisError(f"C03: only {n} encode/decode methods found on SecurityCoder (confirmed: 6)")


SWITCHES = ("itsGnSecurity", "itsGnSnDecapResultHandling")


def switch_stable(ctx) -> None:
    """The receive path reads the security switches from `self.mib` on every packet.  They keep the configured value for
    the life of the router: MIB is a frozen dataclass, and `Router.mib` is bound in __init__ only - or a later binding is a
    copy that carries both switches over from the MIB it replaces (`replace(self.mib, <other fields>)`, or a constructor
    call that passes `itsGnSecurity=self.mib.itsGnSecurity` and the decap handling likewise).  A rebuilt MIB that leaves
    them at their defaults switches verification off at run time."""
    P = ctx.prog
    router = P.cls(ROUTER)
    mib = P.cls("geonet.mib.MIB")
    ctx.ob("C03.switch-stable", mib.qual[10:], "frozen", mib.dataclass and mib.frozen,
           "MIB is a frozen dataclass: a switch cannot be assigned through the instance", f"{mib.module.rel}:{mib.node.lineno}")
    for sw in SWITCHES:
        if sw not in mib.fields:
            raise AnalysisError(f"C03: MIB no longer has the field {sw}")
    n_init = 0
    for m in router.methods.values():
        fl = ctx.flows.get(m)
        for n in ast.walk(m.node):
            tgts = n.targets if isinstance(n, ast.Assign) else [n.target] if isinstance(n, (ast.AnnAssign, ast.AugAssign)) else []
            for t in tgts:
                d = dotted(t) or ""
                if d != "self.mib" and not any(d == f"self.mib.{sw}" for sw in SWITCHES):
                    continue
                if m.name == "__init__" and d == "self.mib":
                    n_init += 1
                    continue
                v = fl.expand(n.value, fl.state_at(n)) if getattr(n, "value", None) is not None and id(n) in fl.before else getattr(n, "value", None)
                ok, why = False, "the switches are assigned directly"
                if d == "self.mib" and isinstance(v, ast.Call):
                    callee = (dotted(v.func) or "").split(".")[-1]
                    kws = {k.arg: k.value for k in v.keywords if k.arg}
                    if callee in ("replace", "dataclass_replace") and v.args and sem.same(v.args[0], "self.mib"):
                        ok = not any(sw in kws for sw in SWITCHES)
                        why = "the copy overrides a security switch"
                    elif any(isinstance(t_, ClassInfo) and t_ is mib for t_ in P.call_targets(m, v, count=False)):
                        ok = all(sw in kws and sem.same(kws[sw], f"self.mib.{sw}") for sw in SWITCHES) and not v.args
                        why = "the new MIB is built without carrying " + " / ".join(sw for sw in SWITCHES if not (sw in kws and sem.same(kws[sw], f"self.mib.{sw}"))) + " over (they fall back to DISABLED / the default)"
                    else:
                        why = f"`{sem.cx(v)[:80]}` is not a copy of the current MIB"
                ctx.ob("C03.switch-stable", m.short(), f"rebinds:{d}", ok,
                       "the MIB is replaced by a copy that keeps both security switches" if ok else
                       f"{m.name} rebinds {d} at run time and {why}: from then on unsecured packets are delivered although the "
                       "station was configured with itsGnSecurity ENABLED", f"{m.module.rel}:{n.lineno}")
    ctx.ob("C03.switch-stable", router.qual[10:], "bound-at-construction", n_init >= 1,
           "Router.mib is bound in __init__", f"{router.module.rel}:{router.node.lineno}")


# ---------------------------------------------------------------------------------------------------------------
# (7) the ECDSA primitive: structural decision (argument binding of the library calls, every reaching definition)
# ---------------------------------------------------------------------------------------------------------------
def _bind(call: ast.Call, names: tuple) -> dict:
    """Arguments of a call to an external library function bound to its documented parameter names."""
    out = {}
    for i, a in enumerate(call.args):
        if isinstance(a, ast.Starred) or i >= len(names):
            out["*"] = a
            continue
        out[names[i]] = a
    for kw in call.keywords:
        out[kw.arg if kw.arg else "**"] = kw.value
    return out


def _callee(e: ast.AST) -> str:
    return (dotted(e.func) or "") if isinstance(e, ast.Call) else ""


def _int_be(e: ast.AST, src: str) -> bool:
    """`e` is int.from_bytes(<src>, 'big') (byte order positional or keyword)."""
    if _callee(e) != "int.from_bytes":
        return False
    b = _bind(e, ("bytes", "byteorder"))
    bo = b.get("byteorder")
    return set(b) == {"bytes", "byteorder"} and sem.same(b["bytes"], src) and isinstance(bo, ast.Constant) and bo.value == "big"


def _is_param(e: ast.AST, fi: FuncInfo, name: str) -> bool:
    # expansion keeps a bare name only for a parameter that was never re-bound (re-bound locals carry a version token)
    return isinstance(e, ast.Name) and e.id == name and name in fi.params


def _verify_call_obligations(e: ast.AST, fi: FuncInfo) -> dict:
    """Which parts of the truthy result are what the contract demands: {aspect: (ok, text)}."""
    out = {}
    is_verify = isinstance(e, ast.Call) and isinstance(e.func, ast.Attribute) and e.func.attr == "verify"
    out["is-library-verify"] = (is_verify, f"`{pretty(unparse(e))[:100]}`")
    if not is_verify:
        return out
    b = _bind(e, ("signature", "data", "hashfunc", "sigdecode", "allow_truncate"))
    out["data"] = ("data" in b and _is_param(b["data"], fi, "data"),
                   f"verified bytes = `{pretty(unparse(b['data']))[:80] if 'data' in b else '<absent>'}` (must be the caller's data)")
    hf = b.get("hashfunc")
    out["hash"] = (hf is not None and dotted(hf) == "hashlib.sha256" and fi.module.imports.get("hashlib") == ("mod", "hashlib"),
                   f"hashfunc = `{unparse(hf) if hf is not None else '<library default: SHA-1>'}` (must be hashlib.sha256)")
    extra = sorted(k for k in b if k not in ("signature", "data", "hashfunc", "sigdecode"))
    sd = b.get("sigdecode")
    sig = b.get("signature")
    sig_ok = False
    if _callee(sig).split(".")[-1] == "sigencode_string" and (sd is None or (dotted(sd) or "").split(".")[-1] == "sigdecode_string"):
        sb = _bind(sig, ("r", "s", "order"))
        sig_ok = set(sb) == {"r", "s", "order"} and _int_be(sb["r"], "signature[1]['rSig'][1]") and \
            _int_be(sb["s"], "signature[1]['sSig']") and sem.same(sb["order"], "ecdsa.NIST256p.order")
    out["signature"] = (sig_ok and not extra,
                        f"signature = `{pretty(unparse(sig))[:150] if sig is not None else '<absent>'}`; must be the string encoding of "
                        "(r, s) read big-endian from the caller's signature['rSig'][1] / ['sSig'] with the P-256 order, decoded "
                        "by the matching string decoder" + (f"; unexpected arguments {extra}" if extra else ""))
    key = e.func.value
    key_ok = False
    if _callee(key).endswith("VerifyingKey.from_public_point"):
        kb = _bind(key, ("point", "curve", "hashfunc", "validate_point"))
        pt = kb.get("point")
        if set(kb) <= {"point", "curve", "hashfunc"} and "curve" in kb and sem.same(kb["curve"], "ecdsa.NIST256p") \
                and _callee(pt).split(".")[-1] == "Point":
            pb = _bind(pt, ("curve", "x", "y", "order"))
            key_ok = set(pb) == {"curve", "x", "y", "order"} and sem.same(pb["curve"], "ecdsa.NIST256p.curve") and \
                _int_be(pb["x"], "pk[1][1]['x']") and _int_be(pb["y"], "pk[1][1]['y']") and sem.same(pb["order"], "ecdsa.NIST256p.order")
    out["key"] = (key_ok, f"verifying key = `{pretty(unparse(key))[:170]}`; must be the P-256 point (x, y) read big-endian from the "
                          "caller's pk[1][1]['x'] / ['y']")
    return out


def backend_primitive(ctx, rule: str):
    """PythonECDSABackend.verify_with_pk: every value it can return is either the constant False or the result of the
    ecdsa library's VerifyingKey.verify over the caller's data, the caller's (r, s) and the caller's public point with
    SHA-256.  Decided over every reaching definition of the returned expression (a result kept in a local counts)."""
    P = ctx.prog
    fi = P.func("security.ecdsa_backend.PythonECDSABackend.verify_with_pk")
    fl = ctx.flows.get(fi)
    rets = [(s, st) for k, s, st in fl.exits if k == "return"]
    if not rets:
        raise AnalysisError("verify_with_pk has no return")
    if any(k == "fall" for k, s, st in fl.exits):
        ctx.ob(rule, fi.short(), "fall-through", True, "falling off the end returns None (falsy)", fi.loc)
    n_verify = 0
    for j, (s, st) in enumerate(rets):
        loc = f"{fi.module.rel}:{s.lineno}"
        in_handler = any(k == "handler" for _, k in fl.enclosing_handlers(s))
        alts = fl.alternatives(s.value, st) if s.value is not None else [ast.Constant(None)]
        for a_i, alt in enumerate(alts):
            tag = f"return#{j}" + (f"/def{a_i}" if len(alts) > 1 else "")
            u = pretty(unparse(alt))
            if isinstance(alt, ast.Constant) and alt.value is False:
                ctx.ob(rule, fi.short(), f"{tag}:false", True, "returns False", loc)
                continue
            if in_handler:
                ctx.ob(rule, fi.short(), f"{tag}:bad-signature", False,
                       f"the exception handler returns `{u[:80]}` (must be False: a signature the library rejected)", loc)
                continue
            n_verify += 1
            for aspect, (ok, text) in _verify_call_obligations(alt, fi).items():
                ctx.ob(rule, fi.short(), f"{tag}:verify:{aspect}", ok,
                       "a result other than False must be ecdsa VerifyingKey.verify(...) over the caller's data / signature / key "
                       "with SHA-256: " + text, loc)
    ctx.ob(rule, fi.short(), "some-real-check", n_verify >= 1,
           f"{n_verify} returned value(s) are results of the library check (a primitive that can only answer False verifies nothing)", fi.loc)
    ctx.floor(rule, 7)
    # exceptions other than a rejected signature must not be turned into a truthy answer: handlers are covered above (every
    # value returned from / assigned in a handler is one of the alternatives)


def library_returns(ctx):
    P = ctx.prog
    lib = P.cls(LIB)
    # get_authorization_ticket_by_hashedid8: exact-key lookup
    g = P.func(f"{LIB}.get_authorization_ticket_by_hashedid8")
    fl = ctx.flows.get(g)
    key = g.params[1]
    for j, (k, s, st) in enumerate([e for e in fl.exits if e[0] == "return"]):
        for a_i, x in enumerate(fl.alternatives(s.value, st) if s.value is not None else [ast.Constant(None)]):
            if isinstance(x, ast.Constant) and x.value is None:
                continue
            ok = sem.same(x, f"self.known_authorization_tickets[{key}]") or sem.same(x, f"self.known_authorization_tickets.get({key})")
            ctx.ob("C03.library-returns-verified", g.short(), f"return#{j}" + (f"/def{a_i}" if a_i else ""), ok,
                   f"digest lookup returns `{show(x)[:100]}`; must be the exact-key entry known_authorization_tickets[{key}] "
                   "(a partial / suffix match lets an altered signer digest resolve to a known ticket)",
                   f"{g.module.rel}:{s.lineno}")
    v = P.func(f"{LIB}.verify_sequence_of_certificates")
    fl = ctx.flows.get(v)
    certs, backend = v.params[1], v.params[2]
    cert_cls = P.cls("security.certificate.Certificate")
    from_dict = cert_cls.find_method("from_dict")
    cert_verify = cert_cls.find_method("verify")
    get_issuer = lib.find_method("get_issuer_certificate")

    def parsed_cert(e):
        """{'certificate': expr, 'issuer': expr|None} when e is Certificate.from_dict(...)"""
        if isinstance(e, ast.Call) and from_dict is not None and from_dict in P.call_targets(v, e, count=False):
            b = bind_call(from_dict, e)
            return {"certificate": b.get("certificate"), "issuer": b.get("issuer")}
        return None

    def verified(e, st) -> bool:
        """must-fact: <e>.verify(<the caller's backend>) returned true"""
        for f in st.facts:
            if f.kind == "cond" and f.pol and isinstance(f.xnode, ast.Call) and isinstance(f.xnode.func, ast.Attribute) \
                    and f.xnode.func.attr == "verify" and unparse(f.xnode.func.value) == unparse(e):
                b = bind_call(cert_verify, f.xnode) if cert_verify is not None else {}
                arg = b.get(cert_verify.params[1]) if cert_verify is not None and len(cert_verify.params) > 1 else None
                if isinstance(arg, ast.Name) and arg.id == backend:
                    return True
        return False

    def not_none(e, st) -> bool:
        w = sem.atoms(ast.Compare(left=e, ops=[ast.IsNot()], comparators=[ast.Constant(None)]), True)[0]
        return any(f.kind == "cond" and w in sem.atoms(f.xnode, f.pol) for f in st.facts)

    def issuer_vouched(e, st, depth=3) -> tuple:
        """The issuer object comes out of the library's own dictionaries (directly, through get_issuer_certificate with a
        None test, or as an in-message certificate that itself verified under such an issuer)."""
        if e is None or depth <= 0:
            return False, "no issuer"
        if isinstance(e, ast.Subscript) and dotted(e.value) in ("self.known_root_certificates", "self.known_authorization_authorities"):
            return True, "library dictionary entry"
        if isinstance(e, ast.Call) and get_issuer is not None and get_issuer in P.call_targets(v, e, count=False):
            return (True, "get_issuer_certificate, tested against None") if not_none(e, st) else \
                (False, "get_issuer_certificate result not tested against None")
        pc = parsed_cert(e)
        if pc is not None:
            if not verified(e, st):
                return False, "in-message issuer certificate not verified"
            return issuer_vouched(pc["issuer"], st, depth - 1)
        return False, f"`{show(e)[:60]}` is not taken from the library"

    n = 0
    for j, (k, s, st) in enumerate([e for e in fl.exits if e[0] == "return"]):
        for a_i, x in enumerate(fl.alternatives(s.value, st) if s.value is not None else [ast.Constant(None)]):
            if isinstance(x, ast.Constant) and x.value is None:
                continue
            n += 1
            tag = f"return#{j}" + (f"/def{a_i}" if a_i else "")
            loc = f"{v.module.rel}:{s.lineno}"
            if isinstance(x, ast.Subscript) and dotted(x.value) == "self.known_authorization_tickets":
                kx = x.slice
                member = sem.atoms(ast.Compare(left=kx, ops=[ast.In()], comparators=[src("self.known_authorization_tickets.keys()")]), True) + \
                    sem.atoms(ast.Compare(left=kx, ops=[ast.In()], comparators=[src("self.known_authorization_tickets")]), True)
                fs = sem.facts_of_state(st)
                recv, steps = (kx.func.value, kx.func.attr) if isinstance(kx, ast.Call) and isinstance(kx.func, ast.Attribute) else (None, None)
                pc = parsed_cert(recv) if recv is not None else None
                of_msg = steps == "as_hashedid8" and pc is not None and pc["certificate"] is not None and \
                    sem.same(pc["certificate"], f"{certs}[0]")
                ctx.ob("C03.library-returns-verified", v.short(), f"{tag}:known", of_msg and any(a in fs for a in member),
                       f"returns the admitted ticket stored under `{show(kx)[:80]}`; must be the HashedId8 of the message's own "
                       "certificate, found in known_authorization_tickets", loc)
                continue
            if isinstance(x, ast.Call) and v in P.call_targets(v, x, count=False):
                b = bind_call(v, x)
                ctx.ob("C03.library-returns-verified", v.short(), f"{tag}:recursive",
                       isinstance(b.get(backend), ast.Name) and b[backend].id == backend,
                       "delegates to the verification of the shorter chain with the caller's backend", loc)
                continue
            # freshly built certificate: must have verified, with an issuer taken from the library
            pc = parsed_cert(x)
            is_ver = pc is not None and verified(x, st)
            ctx.ob("C03.library-returns-verified", v.short(), f"{tag}:verified", is_ver,
                   f"returns `{show(x)[:110]}` " + ("after .verify(backend) succeeded" if is_ver else
                                                    "WITHOUT an established `.verify(backend)` on every path"), loc)
            ok_iss, why = issuer_vouched(pc["issuer"], st) if pc is not None else (False, "not a parsed certificate")
            ctx.ob("C03.library-returns-verified", v.short(), f"{tag}:issuer-from-library", ok_iss,
                   f"issuer of the returned ticket is `{show(pc['issuer'])[:110] if pc else '?'}`: {why}; it must come from the library's own "
                   f"dictionaries (and, for an in-message AA, have verified under a known root)", loc)
            ctx.ob("C03.library-returns-verified", v.short(), f"{tag}:own-certificate",
                   pc is not None and pc["certificate"] is not None and sem.same(pc["certificate"], f"{certs}[0]"),
                   "the returned ticket is parsed from the first certificate of the message's chain", loc)
    if n < 3:
        raise AnalysisError(f"C03: verify_sequence_of_certificates has {n} non-None returns (confirmed: 4)")
    ctx.floor("C03.library-returns-verified", 9)
