"""C03 - secured packets are delivered only if authentic and untampered.

Decides the sanitiser discipline: every path from the link layer to the common-header dispatcher passes either
"security not enabled" or "verify() reported SUCCESS on the received bytes, and the dispatched bytes are the verified
plain message"; SUCCESS is constructed only under a true signature check over the re-encoded tbsData of the same
message, with the message's own signature, under the key of a ticket that the certificate library vouched for and
that verified; the library returns only known or freshly verified tickets; Certificate.verify and the ECDSA
primitive can only answer True through the real checks.
Does not decide cryptographic strength or OER parser behaviour under bit flips (value level).
"""
from __future__ import annotations

import ast
import re

from ..prog import AnalysisError, ClassInfo, FuncInfo, dotted, unparse
from ..match import pretty
from . import secutil as SU
from .secutil import norm

PROP = "C03"
ROUTER = "geonet.router.Router"
VS = "security.verify_service.VerifyService"
LIB = "security.certificate_library.CertificateLibrary"

XROOT = "SECURITY_CODER.decode_etsi_ts_103097_data_signed(request.message)['content'][1]"


def success_sites(ctx, fi):
    P = ctx.prog
    out = []
    for c in P.calls_in(fi):
        for t in P.call_targets(fi, c, count=False):
            if isinstance(t, ClassInfo) and t.name == "SNVERIFYConfirm":
                for kw in c.keywords:
                    if kw.arg == "report":
                        v = P.try_fold(fi.module, kw.value)
                        if isinstance(v, tuple) and v[0] == "enum" and v[2] == "SUCCESS":
                            out.append(c)
                        elif v is None:
                            out.append(c)     # non-constant report: treat as possibly SUCCESS
                if c.args:
                    out.append(c)
    return out


def kw_or_pos(call: ast.Call, name: str, pos: int):
    for kw in call.keywords:
        if kw.arg == name:
            return kw.value
    return call.args[pos] if pos < len(call.args) else None


def run(ctx):
    P = ctx.prog
    ctx.explanation = (
        "Guard / provenance rules (K1, K3) forming a sanitiser discipline from the link layer to delivery. Sinks are found "
        "by role on every run: every call of the common-header dispatcher, every construction of SNVERIFYConfirm that can "
        "carry SUCCESS, every non-None return of the certificate library's signer lookups, every truthy return of "
        "Certificate.verify / verify_signature / the ECDSA primitive. At each sink the must-facts of all paths have to "
        "contain the listed checks, and the values involved (signed bytes, signature, key, delivered bytes) must be "
        "projections of the same decoded message (access-path comparison after expanding locals). The suite replaces "
        "verify(), the library and the certificates by mocks; the rules read the real functions.")
    ctx.declined = ["cryptographic strength", "OER parser behaviour under bit flips / trailing bytes (value level)",
                    "histories of forged chains beyond trust-store closure (C09)"]
    router = P.cls(ROUTER)
    pch = P.func(f"{ROUTER}.process_common_header")
    # ---- (1),(2) dispatcher calls
    n = 0
    for m in router.methods.values():
        fl = ctx.flows.get(m)
        for c in P.calls_in(m):
            if pch not in [t for t in P.call_targets(m, c, count=False) if isinstance(t, FuncInfo)]:
                continue
            n += 1
            st = fl.state_at(c)
            conds = {norm(pretty(f.xkey)): f.pol for f in st.facts if f.kind == "cond"}
            insecure = conds.get("self.mib.itsGnSecurity==GnSecurity.ENABLED") is False
            vfact = [k for k, v in conds.items() if v and re.fullmatch(
                r"self\.verify_service\.verify\(SNVERIFYRequest\(.*\)\)\.report==ReportVerify\.SUCCESS", k)]
            loc = f"{m.module.rel}:{c.lineno}"
            if vfact:
                ctx.ob("C03.verified-dispatch", m.short(), f"dispatch#{n}:report-success", True,
                       "dispatch guarded by verify(...).report == SUCCESS", loc)
                ok_msg = "message=packet," in vfact[0] or vfact[0].startswith("self.verify_service.verify(SNVERIFYRequest(message=packet")
                ctx.ob("C03.verified-dispatch", m.short(), f"dispatch#{n}:verifies-received-bytes", ok_msg,
                       "the verify request carries the received bytes (message=packet)", loc)
                arg = norm(pretty(unparse(fl.expand(c.args[0], st)))) if c.args else ""
                ok_plain = bool(re.fullmatch(r"self\.verify_service\.verify\(SNVERIFYRequest\(.*\)\)\.plain_message", arg))
                ctx.ob("C03.verified-dispatch", m.short(), f"dispatch#{n}:delivers-verified-bytes", ok_plain,
                       f"dispatched bytes are `{arg[:90]}`; must be the plain_message of that same verify confirm", loc)
            else:
                ctx.ob("C03.unsecured-drop", m.short(), f"dispatch#{n}", insecure,
                       "common-header processing of an UNVERIFIED packet " +
                       ("only when itsGnSecurity != ENABLED" if insecure else
                        "is reachable while itsGnSecurity == ENABLED (no `security enabled -> drop` guard and no SUCCESS "
                        "report on this path): an unsecured packet would be delivered. Facts: " +
                        "; ".join(("" if v else "not ") + k for k, v in conds.items() if "nh" in k or "Security" in k)[:300]),
                       loc)
    if n < 2:
        raise AnalysisError(f"C03: {n} dispatcher calls found (confirmed: 2)")
    # the verify call and the report test use the same confirm object by construction (expansion); verify_service None => drop
    psh = P.func(f"{ROUTER}.process_security_header")
    fl = ctx.flows.get(psh)
    vcalls = [c for c in P.calls_in(psh) if isinstance(c.func, ast.Attribute) and c.func.attr == "verify"]
    ctx.ob("C03.verified-dispatch", psh.short(), "single-verify", len(vcalls) == 1,
           f"{len(vcalls)} verify() call(s) in the secured-packet path", psh.loc)

    # ---- (3),(4) SUCCESS needs the signature check over the same message under a vouched ticket
    vf = P.func(f"{VS}.verify")
    fl = ctx.flows.get(vf)
    sites = success_sites(ctx, vf)
    if not sites:
        raise AnalysisError("C03: no SUCCESS construction found in VerifyService.verify")
    xroot = norm(XROOT)
    for i, c in enumerate(sites):
        st = fl.state_at(c)
        loc = f"{vf.module.rel}:{c.lineno}"
        con = vf.short()
        prim = None
        for f in st.facts:
            if f.kind == "cond" and f.pol and isinstance(f.xnode, ast.Call) and isinstance(f.xnode.func, ast.Attribute) \
                    and f.xnode.func.attr == "verify_with_pk":
                prim = f.xnode
        ctx.ob("C03.success-needs-signature", con, f"success#{i}:guarded", prim is not None,
               "SUCCESS is constructed only under a true result of backend.verify_with_pk(...)" if prim is not None else
               "SUCCESS can be constructed on a path where no backend.verify_with_pk(...) result is established as true "
               "(cached / short-circuited / inverted check)", loc)
        if prim is None:
            continue
        recv = norm(pretty(unparse(prim.func.value)))
        ctx.ob("C03.success-needs-signature", con, f"success#{i}:backend", recv == "self.backend",
               f"primitive invoked on `{recv}`", loc)
        data = norm(pretty(unparse(kw_or_pos(prim, "data", 0))))
        sig = norm(pretty(unparse(kw_or_pos(prim, "signature", 1))))
        pk = norm(pretty(unparse(kw_or_pos(prim, "pk", 2))))
        ctx.ob("C03.success-needs-signature", con, f"success#{i}:signed-bytes",
               data == f"SECURITY_CODER.encode_to_be_signed_data({xroot}['tbsData'])",
               f"verified bytes = `{data[:140]}`; must be the re-encoded tbsData of the received message", loc)
        ctx.ob("C03.success-needs-signature", con, f"success#{i}:signature", sig == f"{xroot}['signature']",
               f"signature = `{sig[:120]}`; must be the received message's signature", loc)
        m = re.fullmatch(r"(authorization_ticket(?:@p?[0-9_]+)?)\.certificate\['toBeSigned'\]\['verifyKeyIndicator'\]\[1\]",
                         norm(unparse(kw_or_pos(prim, "pk", 2))))
        ctx.ob("C03.success-needs-signature", con, f"success#{i}:key", m is not None,
               f"key = `{pk[:120]}`; must be the verification key of the resolved authorization ticket", loc)
        plain = kw_or_pos(c, "plain_message", 5)
        pm = norm(pretty(unparse(fl.expand(plain, st)))) if plain is not None else "<absent>"
        ctx.ob("C03.success-needs-signature", con, f"success#{i}:delivered-bytes",
               pm == f"{xroot}['tbsData']['payload']['data']['content'][1]",
               f"plain_message = `{pm[:140]}`; must be the payload inside the SAME signed tbsData", loc)
        # ---- ticket facts
        tok = m.group(1) if m else "authorization_ticket"
        conds = {norm(f.xkey): f.pol for f in st.facts if f.kind == "cond"}
        for need, txt in ((f"{tok}.verify(self.backend)", "ticket chain verified (Certificate.verify)"),
                          (f"{tok}.is_authorization_ticket()", "signer is an authorization ticket"),):
            ctx.ob("C03.signer-vouched", con, f"success#{i}:{need.split('.')[-1]}", conds.get(norm(need)) is True,
                   f"SUCCESS requires `{pretty(need)}`: {txt}", loc)
        ctx.ob("C03.signer-vouched", con, f"success#{i}:not-none", conds.get(norm(f"{tok} is None")) is False,
               "ticket is not None", loc)
        defs = fl.reaching("authorization_ticket", st)
        allowed = (f"self.certificate_library.verify_sequence_of_certificates({xroot}['signer'][1],self.backend)",
                   f"self.certificate_library.get_authorization_ticket_by_hashedid8({xroot}['signer'][1])", "None")
        for d in defs:
            v = norm(pretty(unparse(d.xvalue))) if d.xvalue is not None else "<opaque>"
            ctx.ob("C03.signer-vouched", con, f"success#{i}:source:{v[:60]}", v in allowed,
                   f"ticket candidate comes from `{v[:150]}`; only the certificate library's signer lookups on the message's "
                   f"own signer field may provide it", f"{vf.module.rel}:{getattr(d.stmt, 'lineno', 0)}")
    ctx.floor("C03.success-needs-signature", 6)
    ctx.floor("C03.signer-vouched", 5)

    # ---- (5) the library only returns known or freshly verified tickets
    library_returns(ctx)
    # ---- (6),(7)
    SU.cert_verify_conjuncts(ctx, "C03.cert-verify")
    SU.backend_primitive(ctx, "C03.backend")


def library_returns(ctx):
    P = ctx.prog
    # get_authorization_ticket_by_hashedid8: exact-key lookup
    g = P.func(f"{LIB}.get_authorization_ticket_by_hashedid8")
    fl = ctx.flows.get(g)
    for j, (k, s, st) in enumerate([e for e in fl.exits if e[0] == "return"]):
        u = norm(pretty(unparse(fl.expand(s.value, st))))
        if u == "None":
            continue
        ok = u == "self.known_authorization_tickets[hashedid8]"
        ctx.ob("C03.library-returns-verified", g.short(), f"return#{j}", ok,
               f"digest lookup returns `{u[:100]}`; must be the exact-key entry known_authorization_tickets[hashedid8] "
               "(a partial / suffix match lets an altered signer digest resolve to a known ticket)",
               f"{g.module.rel}:{s.lineno}")
    v = P.func(f"{LIB}.verify_sequence_of_certificates")
    fl = ctx.flows.get(v)
    n = 0
    for j, (k, s, st) in enumerate([e for e in fl.exits if e[0] == "return"]):
        x = fl.expand(s.value, st)
        u = norm(pretty(unparse(x)))
        if u == "None":
            continue
        n += 1
        loc = f"{v.module.rel}:{s.lineno}"
        conds = {norm(f.xkey): f.pol for f in st.facts if f.kind == "cond"}
        if re.fullmatch(r"self\.known_authorization_tickets\[.*\.as_hashedid8\(\)\]", u):
            ctx.ob("C03.library-returns-verified", v.short(), f"return#{j}:known", True, "returns an already admitted ticket", loc)
            continue
        if u.startswith("self.verify_sequence_of_certificates("):
            ctx.ob("C03.library-returns-verified", v.short(), f"return#{j}:recursive", True, "delegates to the shorter chain", loc)
            continue
        # freshly built certificate: must have verified, with an issuer taken from the library
        raw = unparse(s.value)
        tokv = norm(unparse(fl.expand(ast.parse(raw, mode="eval").body, st))) if re.fullmatch(r"\w+", raw) else None
        verified = any(pol and re.fullmatch(re.escape(norm(unparse(x))) + r"\.verify\((backend=)?backend\)", k)
                       for k, pol in conds.items())
        ctx.ob("C03.library-returns-verified", v.short(), f"return#{j}:verified", verified,
               f"returns `{u[:110]}` " + ("after .verify(backend) succeeded" if verified else
                                          "WITHOUT an established `.verify(backend)` on every path"), loc)
        m = re.search(r"issuer=(.+?)\)$", u)
        issuer = m.group(1) if m else ""
        from_lib = issuer.startswith("self.get_issuer_certificate(") or issuer.startswith("self.known_root_certificates[") \
            or "issuer=self.known_root_certificates[" in issuer
        issuer_verified = True
        if issuer.startswith("Certificate.from_dict("):
            issuer_verified = any(pol and k.startswith(issuer) and ".verify(" in k for k, pol in conds.items())
            from_lib = "issuer=self.known_root_certificates[" in issuer
        ctx.ob("C03.library-returns-verified", v.short(), f"return#{j}:issuer-from-library", from_lib and issuer_verified,
               f"issuer of the returned ticket is `{issuer[:110]}`; must come from the library's own dictionaries (and, for an "
               f"in-message AA, have verified under a known root)", loc)
        if "get_issuer_certificate" in issuer:
            ctx.ob("C03.library-returns-verified", v.short(), f"return#{j}:issuer-not-none",
                   any(k.endswith("isNone") and pol is False and "get_issuer_certificate" in k for k, pol in conds.items()),
                   "issuer lookup result tested against None", loc)
    if n < 3:
        raise AnalysisError(f"C03: verify_sequence_of_certificates has {n} non-None returns (confirmed: 4)")
