"""C09 - trust store closure and signer authorisation.

Decides: who may write the four trust dictionaries and who may call the root admission; the established facts at every
admission store; the conjuncts of Certificate.verify (shared with C03) incl. what the permission containment covers; the
authorisation facts a SUCCESS verdict needs (message PSID within the ticket's application permissions, generation time
within its validity period); the guards and the chain-length narrowing of the issuing API.
Does not decide histories of forged chains as values, nor hash-collision arguments.
"""
from __future__ import annotations

import ast
import re

from ..prog import AnalysisError, ClassInfo, FuncInfo, dotted, unparse
from ..locks import LockAnalysis
from ..match import pretty
from . import secutil as SU
from .secutil import norm
from .c03 import success_sites

PROP = "C09"
LIB = "security.certificate_library.CertificateLibrary"
CERT = "security.certificate.Certificate"
OWN = "security.certificate.OwnCertificate"
VS = "security.verify_service.VerifyService"
STORES = ("known_root_certificates", "known_authorization_authorities", "known_authorization_tickets", "own_certificates")


def run(ctx):
    P = ctx.prog
    ctx.explanation = (
        "Effect (who-writes / who-calls) rules (K7) over the whole program for the four trust dictionaries, guard rules (K1) "
        "on every admission store and on every SUCCESS construction of the verify service, truth-condition extraction of "
        "Certificate.verify (what every True answer has established, callee predicates inlined), structural rules on the "
        "issuing API's chain-length narrowing. The rules are path-universal, so they cover every sequence of add/verify "
        "calls and received messages: a certificate can only enter a dictionary through a store whose guards are listed.")
    ctx.declined = ["forged chains as concrete values / hash collisions", "revocation", "cryptographic strength"]
    la = LockAnalysis(ctx)
    lib = P.cls(LIB)
    # ---- writers
    n = 0
    for fld in STORES:
        for a in la.accesses(LIB, fld):
            if a.kind == "read":
                continue
            n += 1
            ok = a.fi.cls is lib and a.fi.name.startswith("add_")
            ctx.ob("C09.writers", a.fi.short(), f"{fld}:{a.how}", ok,
                   f"{fld} is written by {a.fi.short()} ({a.how})" + ("" if ok else
                                                                     " - trust dictionaries may only be written by CertificateLibrary.add_*"),
                   f"{a.fi.module.rel}:{a.line}")
    ctx.floor("C09.writers", 4, "stores")
    # ---- who may admit roots: configuration (constructor) only
    root_adm = lib.methods["add_root_certificate"]
    callers = P.callers_of(root_adm)
    for c, call in callers:
        ok = c.cls is lib and c.name == "__init__"
        ctx.ob("C09.root-callers", c.short(), "add_root_certificate", ok,
               "trusted roots are admitted " + ("from the library's constructor (configured roots)" if ok else
                                                f"by {c.short()}: a root learnt at run time (e.g. from a received message) extends the "
                                                "trust anchor set beyond the configured one"), f"{c.module.rel}:{call.lineno}")
    ctx.floor("C09.root-callers", 1, "call sites")
    # ---- admission guards
    for m in lib.methods.values():
        if not m.name.startswith("add_"):
            continue
        fl = ctx.flows.get(m)
        for node in ast.walk(m.node):
            if isinstance(node, ast.Assign) and isinstance(node.targets[0], ast.Subscript) and \
                    (dotted(node.targets[0].value) or "").startswith("self.") and dotted(node.targets[0].value)[5:] in STORES:
                fld = dotted(node.targets[0].value)[5:]
                st = fl.state_at(node)
                conds = {norm(pretty(f.xkey)): f.pol for f in st.facts if f.kind == "cond"}
                val = norm(pretty(unparse(fl.expand(node.value, st))))
                key = norm(pretty(unparse(fl.expand(node.targets[0].slice, st))))
                loc = f"{m.module.rel}:{node.lineno}"
                ctx.ob("C09.admission", m.short(), f"{fld}:stores-the-checked-certificate",
                       val == "certificate" and key == "certificate.as_hashedid8()",
                       f"stores `{val}` under `{key}`", loc)
                ver = conds.get("certificate.verify(self.ecdsa_backend)") is True
                ctx.ob("C09.admission", m.short(), f"{fld}:verified", ver,
                       "admission " + ("only after certificate.verify(backend)" if ver else "without an established certificate.verify(backend)"), loc)
                if fld != "known_root_certificates":
                    iss = conds.get("self.get_issuer_certificate(certificate)isNone") is False
                    ctx.ob("C09.admission", m.short(), f"{fld}:issuer-known", iss,
                           "admission " + ("only when the issuer is found in the library's own dictionaries" if iss else
                                           "without requiring a known issuer"), loc)
    ctx.floor("C09.admission", 10)
    gi = lib.methods["get_issuer_certificate"]
    fl = ctx.flows.get(gi)
    for j, (k, s, st) in enumerate([e for e in fl.exits if e[0] == "return"]):
        u = norm(pretty(unparse(fl.expand(s.value, st))))
        ok = u == "None" or re.fullmatch(r"self\.known_(root_certificates|authorization_authorities)\[certificate\.certificate\['issuer'\]\[1\]\]", u)
        ctx.ob("C09.admission", gi.short(), f"return#{j}", bool(ok), f"issuer lookup returns `{u[:90]}` (must come from the root / AA dictionaries)",
               f"{gi.module.rel}:{s.lineno}")
    # ---- what verify() establishes
    SU.cert_verify_conjuncts(ctx, "C09.verify-conjuncts")
    needed = P.func(f"{CERT}.get_list_of_needed_permissions")
    fl = ctx.flows.get(needed)
    for k, s, st in fl.exits:
        if k == "return":
            calls = {pretty(f.xkey) for f in st.facts if f.kind == "call"}
            both = any("get_list_of_psid_from_cert_issue_permissions()" in c for c in calls) and \
                any("get_list_of_psid_from_app_permissions()" in c for c in calls)
            ctx.ob("C09.verify-conjuncts", needed.short(), "needed=issue+app", both,
                   "the permissions a subject needs from its issuer cover BOTH its certIssuePermissions and its appPermissions",
                   f"{needed.module.rel}:{s.lineno}")
    chk = P.func(f"{CERT}.check_issuer_has_subject_permissions")
    fl = ctx.flows.get(chk)
    for j, (k, s, st) in enumerate([e for e in fl.exits if e[0] == "return"]):
        u = norm(pretty(unparse(fl.expand(s.value, st))))
        conds = {norm(pretty(f.xkey)): f.pol for f in st.facts if f.kind == "cond"}
        if u == "True":
            ok = conds.get("issuer.certificate_has_all_permissions()") is True
        else:
            ok = u == ("Certificate.check_all_requested_permissions_are_allowed(self.get_list_of_needed_permissions(),"
                       "issuer.get_list_of_allowed_persmissions())")
        ctx.ob("C09.verify-conjuncts", chk.short(), f"return#{j}", ok,
               f"containment check returns `{u[:120]}`; must be 'issuer may issue all' or all(needed in issuer's allowed)",
               f"{chk.module.rel}:{s.lineno}")
    allw = P.func(f"{CERT}.check_all_requested_permissions_are_allowed")
    src = norm(unparse(allw.node.body[-1]))
    ctx.ob("C09.verify-conjuncts", allw.short(), "all-in", src == "returnall((iteminissuer_permissionsforitemincertificate_permissions))",
           f"`{src[:100]}`", allw.loc)

    # ---- message acceptance: PSID within the ticket's permissions, generation time within validity
    vf = P.func(f"{VS}.verify")
    fl = ctx.flows.get(vf)
    for i, c in enumerate(success_sites(ctx, vf)):
        st = fl.state_at(c)
        conds = {norm(pretty(f.xkey)): f.pol for f in st.facts if f.kind == "cond"}
        loc = f"{vf.module.rel}:{c.lineno}"
        psid_ok = any(v and re.search(r"in(authorization_ticket)\.get_list_of_(its_aid|psid_from_app_permissions)\(\)", k) and "psid" in k
                      for k, v in conds.items())
        ctx.ob("C09.msg-psid", vf.short(), f"success#{i}", psid_ok,
               "SUCCESS requires the message's PSID among the signing ticket's appPermissions" if psid_ok else
               "SUCCESS is reported without comparing the message's PSID (headerInfo.psid) with the signing ticket's "
               "appPermissions: a CAM-only ticket can sign a DENM (PSID 37) and is accepted", loc)
        val_ok = any("validityPeriod" in k and "generationTime" in k for k in conds) or \
            any(re.search(r"authorization_ticket\.(is_valid_at|check_validity|covers_time)\(", k) and v for k, v in conds.items())
        ctx.ob("C09.msg-validity", vf.short(), f"success#{i}", val_ok,
               "SUCCESS requires generationTime within the ticket's validityPeriod" if val_ok else
               "SUCCESS is reported without comparing headerInfo.generationTime with the signing ticket's validityPeriod: a "
               "message signed under an expired (or not yet valid) ticket is accepted", loc)

    # ---- issuing
    ic = P.func(f"{OWN}.issue_certificate")
    fl = ctx.flows.get(ic)
    signs = [c for c in P.calls_in(ic) if isinstance(c.func, ast.Attribute) and c.func.attr == "sign_certificate"]
    for j, c in enumerate(signs):
        st = fl.state_at(c)
        conds = {norm(pretty(f.xkey)): f.pol for f in st.facts if f.kind == "cond"}
        selfsigned = conds.get("certificate.certificate_is_self_signed()") is True
        guarded = conds.get("certificate.check_issuer_has_subject_permissions(self)") is True and \
            conds.get("self.check_enough_min_chain_length_for_issuer()") is True
        ctx.ob("C09.issuing", ic.short(), f"sign#{j}", selfsigned or guarded,
               "signature " + ("for a self-signed subject" if selfsigned else
                               "only when the subject's permissions are contained in the issuer's and the chain-length budget allows"
                               if guarded else "WITHOUT the permission-containment / chain-length guards"),
               f"{ic.module.rel}:{c.lineno}")
        if guarded:
            arg = norm(pretty(unparse(fl.expand(c.args[1], st))))
            ctx.ob("C09.issuing", ic.short(), f"sign#{j}:narrowed", arg == "certificate.set_chain_length_issue_permissions(self).set_issuer(self)",
                   f"certificate signed = `{arg[:100]}` (chain length narrowed, issuer set)", f"{ic.module.rel}:{c.lineno}")
    ce = P.func(f"{OWN}.check_enough_min_chain_length_for_issuer")
    src = norm(unparse(ce.node))
    ctx.ob("C09.issuing", ce.short(), "budget", "permission['minChainLength']<1" in src and "ifnotany(" in src,
           "issuer may issue only while none of its issuing permissions has minChainLength < 1", ce.loc)
    sc = P.func(f"{CERT}.set_chain_length_issue_permissions")
    decs = [n for n in ast.walk(sc.node) if isinstance(n, ast.AugAssign) and isinstance(n.op, ast.Sub) and
            "minChainLength" in unparse(n.target) and P.try_fold(sc.module, n.value) == 1]
    ctx.ob("C09.issuing", sc.short(), "decrement-present", len(decs) == 1, f"{len(decs)} decrement(s) of minChainLength", sc.loc)
    fl = ctx.flows.get(sc)
    for d in decs:
        # the enclosing loop must iterate the NEW certificate's permissions and sit outside any branch of the all/explicit split
        chain = []
        cur = d
        while id(cur) in fl.parent:
            cur = fl.parent[id(cur)]
            chain.append(cur)
        loops = [x for x in chain if isinstance(x, ast.For)]
        ok_iter = bool(loops) and norm(unparse(loops[0].iter)).replace("list(", "").rstrip(")") == "cert_dict['toBeSigned']['certIssuePermissions']"
        ifs = [x for x in chain if isinstance(x, ast.If)]
        only_wants = all("certificate_wants_cert_issue_permissions" in unparse(x.test) for x in ifs)
        in_else = any(loops and (loops[0] in x.orelse or any(loops[0] is y for b in x.orelse for y in ast.walk(b))) for x in ifs)
        ctx.ob("C09.issuing", sc.short(), "decrement-on-every-path", ok_iter and only_wants and not in_else,
               "every issuing permission of a CA subject gets minChainLength - 1 whatever the issuer's permission form" if
               ok_iter and only_wants and not in_else else
               "the minChainLength decrement is not applied on every path (it sits inside one branch of the all/explicit split): "
               "a sub-CA inherits its issuer's chain-length budget unchanged", f"{sc.module.rel}:{d.lineno}")
    rem = [n for n in ast.walk(sc.node) if isinstance(n, ast.If) and norm(unparse(n.test)) == "permission['minChainLength']<1"]
    ok_rem = bool(rem) and all(any(isinstance(c, ast.Call) and isinstance(c.func, ast.Attribute) and c.func.attr == "remove"
                                   for b in r.body for c in ast.walk(b)) for r in rem) and \
        (not decs or not rem or rem[0].lineno > decs[0].lineno)
    ctx.ob("C09.issuing", sc.short(), "exhausted-removed", ok_rem,
           "issuing permissions whose budget reached 0 are removed after the decrement", sc.loc)
    ctx.floor("C09.issuing", 6)
