"""C09 - trust store closure and signer authorisation.

Decides: who may write the four trust dictionaries (writers: only CertificateLibrary.add_*) and who may call the root
admission (root-callers: only the library's constructor); the established facts at every admission store (admission:
the certificate stored under its own HashedId8 is the one that passed verify(backend), for every dictionary but the
roots with an issuer found in the library; the issuer lookup answers only from the root / AA dictionaries); the conjuncts of Certificate.verify
(verify-conjuncts, shared with C03: signature under the issuer's - or, marked self-signed, its own - explicit key,
issuer correspondence, permission containment) incl. what that containment covers: needed permissions = issue AND
application permissions, allowed = the issuer's explicit issuing PSIDs, "may issue all" answered only for the choice
`all`, the check returning only "issuer may issue all" or all(needed in allowed), and - path by path - no truthy
answer for a subject claiming to issue `all` unless its issuer may issue all (the needed list holds explicit PSIDs
only, so that claim is never compared otherwise); the authorisation facts a SUCCESS verdict needs (msg-psid: message
PSID among the ticket's application permissions; msg-validity: generation time within its validity period); the issuing
API (issuing: signing only for a self-signed subject or under the containment and chain-length-budget guards, the
signed certificate narrowed with its issuer set, budget = no issuing permission with minChainLength < 1, one decrement
of minChainLength applied on every path over the new certificate's permissions, exhausted permissions removed).
Does not decide histories of forged chains as values, hash-collision arguments, revocation, cryptographic strength.
"""
from __future__ import annotations

import ast
import re

from ..prog import AnalysisError, ClassInfo, FuncInfo, dotted, unparse
from ..locks import LockAnalysis
from ..match import pretty
from ..flow import cond_atoms
from ..truth import Truth
from .. import sem
from . import secutil as SU
from .secutil import norm
from .c03 import success_sites

PROP = "C09"
LIB = "security.certificate_library.CertificateLibrary"
CERT = "security.certificate.Certificate"
OWN = "security.certificate.OwnCertificate"
VS = "security.verify_service.VerifyService"
STORES = ("known_root_certificates", "known_authorization_authorities", "known_authorization_tickets", "own_certificates")


def run(ctx):
    P = ctx.prog
    ctx.explanation = (
        "Effect (who-writes / who-calls) rules (K7) over the whole program for the four trust dictionaries, guard rules (K1) "
        "on every admission store and on every SUCCESS construction of the verify service, truth-condition extraction of "
        "Certificate.verify (what every True answer has established, callee predicates inlined), structural rules on the "
        "issuing API's chain-length narrowing. The rules are path-universal, so they cover every sequence of add/verify "
        "calls and received messages: a certificate can only enter a dictionary through a store whose guards are listed.")
    ctx.declined = ["forged chains as concrete values / hash collisions", "revocation", "cryptographic strength"]
    la = LockAnalysis(ctx)
    lib = P.cls(LIB)
    # ---- writers
    n = 0
    for fld in STORES:
        for a in la.accesses(LIB, fld):
            if a.kind == "read":
                continue
            n += 1
            ok = a.fi.cls is lib and a.fi.name.startswith("add_")
            ctx.ob("C09.writers", a.fi.short(), f"{fld}:{a.how}", ok,
                   f"{fld} is written by {a.fi.short()} ({a.how})" + ("" if ok else
                                                                     " - trust dictionaries may only be written by CertificateLibrary.add_*"),
                   f"{a.fi.module.rel}:{a.line}")
    ctx.floor("C09.writers", 4, "stores")
    # ---- who may admit roots: configuration (constructor) only
    root_adm = lib.methods["add_root_certificate"]
    callers = P.callers_of(root_adm)
    for c, call in callers:
        ok = c.cls is lib and c.name == "__init__"
        ctx.ob("C09.root-callers", c.short(), "add_root_certificate", ok,
               "trusted roots are admitted " + ("from the library's constructor (configured roots)" if ok else
                                                f"by {c.short()}: a root learnt at run time (e.g. from a received message) extends the "
                                                "trust anchor set beyond the configured one"), f"{c.module.rel}:{call.lineno}")
    ctx.floor("C09.root-callers", 1, "call sites")
    # ---- admission guards
    for m in lib.methods.values():
        if not m.name.startswith("add_"):
            continue
        fl = ctx.flows.get(m)
        for node in ast.walk(m.node):
            if isinstance(node, ast.Assign) and isinstance(node.targets[0], ast.Subscript) and \
                    (dotted(node.targets[0].value) or "").startswith("self.") and dotted(node.targets[0].value)[5:] in STORES:
                fld = dotted(node.targets[0].value)[5:]
                st = fl.state_at(node)
                if len(m.params) < 2:
                    raise AnalysisError(f"C09: {m.short()} lost its certificate parameter")
                cert = m.params[1]
                facts = sem.facts(fl, node) | SU.branch_atoms(fl, node)
                xval = fl.expand(node.value, st)
                xkey = fl.expand(node.targets[0].slice, st)
                loc = f"{m.module.rel}:{node.lineno}"
                ctx.ob("C09.admission", m.short(), f"{fld}:stores-the-checked-certificate",
                       sem.same(xval, cert) and sem.same(xkey, f"{cert}.as_hashedid8()"),
                       f"stores `{pretty(unparse(xval))}` under `{pretty(unparse(xkey))}`", loc)
                ver = sem.holds(facts, f"{cert}.verify(self.ecdsa_backend)")
                ctx.ob("C09.admission", m.short(), f"{fld}:verified", ver,
                       "admission " + ("only after certificate.verify(backend)" if ver else "without an established certificate.verify(backend)"), loc)
                if fld != "known_root_certificates":
                    iss = sem.holds(facts, f"self.get_issuer_certificate({cert}) is not None")
                    ctx.ob("C09.admission", m.short(), f"{fld}:issuer-known", iss,
                           "admission " + ("only when the issuer is found in the library's own dictionaries" if iss else
                                           "without requiring a known issuer"), loc)
    ctx.floor("C09.admission", 10)
    gi = lib.methods["get_issuer_certificate"]
    fl = ctx.flows.get(gi)
    if len(gi.params) < 2:
        raise AnalysisError("C09: get_issuer_certificate lost its certificate parameter")
    digest = f"{gi.params[1]}.certificate['issuer'][1]"
    for j, (k, s, st) in enumerate([e for e in fl.exits if e[0] == "return"]):
        x = fl.expand(s.value, st) if s.value is not None else ast.Constant(None)
        ok = isinstance(x, ast.Constant) and x.value is None
        for d in ("self.known_root_certificates", "self.known_authorization_authorities"):
            ok = ok or sem.same(x, f"{d}[{digest}]") or sem.same(x, f"{d}.get({digest})")
        u = pretty(unparse(x))
        ctx.ob("C09.admission", gi.short(), f"return#{j}", bool(ok), f"issuer lookup returns `{u[:90]}` (must come from the root / AA dictionaries)",
               f"{gi.module.rel}:{s.lineno}")
    # ---- what verify() establishes
    SU.cert_verify_conjuncts(ctx, "C09.verify-conjuncts")
    needed = P.func(f"{CERT}.get_list_of_needed_permissions")
    fl = ctx.flows.get(needed)
    for k, s, st in fl.exits:
        if k == "return":
            missing = [h for h in ("get_list_of_psid_from_cert_issue_permissions", "get_list_of_psid_from_app_permissions")
                       if not _flows_into_result(P, fl, needed, s, st, h)]
            ctx.ob("C09.verify-conjuncts", needed.short(), "needed=issue+app", not missing,
                   "the permissions a subject needs from its issuer cover BOTH its certIssuePermissions and its appPermissions"
                   + ("" if not missing else f" - not part of the result on every path: {missing}"),
                   f"{needed.module.rel}:{s.lineno}")
    # the PSID collectors gather over ALL permission groups: the list they return is only ever grown inside the loops that fill it
    # (a rebinding inside a loop keeps the last group only - a subject then needs less than it claims)
    n_col = 0
    for hname in ("get_list_of_psid_from_cert_issue_permissions", "get_list_of_psid_from_app_permissions", "get_list_of_allowed_persmissions"):
        hf = P.cls(CERT).find_method(hname)
        if hf is None:
            continue
        accs = {r.value.id for r in ast.walk(hf.node) if isinstance(r, ast.Return) and isinstance(r.value, ast.Name)}
        loops_ = [l_ for l_ in ast.walk(hf.node) if isinstance(l_, (ast.For, ast.While))]
        for acc in sorted(accs):
            n_col += 1
            rebinds = [a_ for l_ in loops_ for a_ in ast.walk(l_) if isinstance(a_, ast.Assign) and
                       any(isinstance(t_, ast.Name) and t_.id == acc for t_ in a_.targets) and
                       not any(isinstance(x_, ast.Name) and x_.id == acc for x_ in ast.walk(a_.value))]
            ctx.ob("C09.verify-conjuncts", hf.short(), f"collects-every-group:{acc}", not rebinds,
                   f"`{acc}` is only grown inside the loops over the permission groups" if not rebinds else
                   f"`{acc}` is rebound inside a loop (line {rebinds[0].lineno}): every earlier permission group is dropped, only the last one "
                   "counts - a certificate whose first group claims more than its issuer may hand on is accepted", f"{hf.module.rel}:{hf.node.lineno}")
    if n_col < 2:
        raise AnalysisError(f"C09: only {n_col} PSID collectors with a returned accumulator found (confirmed: 3)")
    # the helper bodies the containment conjunct relies on (each checked once, as its own obligation)
    hall = P.func(f"{CERT}.certificate_has_all_permissions")
    ok, why = SU.has_all_body(ctx, hall)
    ctx.ob("C09.verify-conjuncts", hall.short(), "all-only-for-choice-all", ok,
           f"'issuer may issue all' is answered {why}", hall.loc)
    alw = P.func(f"{CERT}.get_list_of_allowed_persmissions")
    ok, why = SU.issuable_psids_body(ctx, alw)
    ctx.ob("C09.verify-conjuncts", alw.short(), "allowed=explicit-issue-psids", ok,
           f"the permissions an issuer may hand on: {why}", alw.loc)
    chk = P.func(f"{CERT}.check_issuer_has_subject_permissions")
    fl = ctx.flows.get(chk)
    if len(chk.params) < 2:
        raise AnalysisError("C09: check_issuer_has_subject_permissions lost its issuer parameter")
    subj_p, iss_p = chk.params[0], chk.params[1]
    # the list of needed permissions only holds EXPLICIT psids: a subject that claims to issue "all" has to be refused unless
    # its issuer may issue all - on every path that can answer True
    bad_all = []
    for r in [n for n in ast.walk(chk.node) if isinstance(n, ast.Return) and n.value is not None]:
        if isinstance(r.value, ast.Constant) and r.value.value in (False, None):
            continue
        for pc in sem.path_conditions(chk.node, r, kill_rebound=False):
            if f"truthy({iss_p}.certificate_has_all_permissions())" in pc or f"!truthy({subj_p}.certificate_has_all_permissions())" in pc:
                continue
            bad_all.append(r.lineno)
    ctx.ob("C09.verify-conjuncts", chk.short(), "all-claim-needs-all-issuer", not bad_all,
           "a subject claiming to issue 'all' is covered only by an issuer that may issue all" if not bad_all else
           f"the containment check can answer True (line {bad_all[0]}) for a subject whose certIssuePermissions say 'all' under an issuer with "
           "explicit issuing permissions only: the needed-permission list holds explicit PSIDs, so the 'all' claim is never compared",
           chk.loc)
    for j, (k, s, st) in enumerate([e for e in fl.exits if e[0] == "return"]):
        x = SU.peel(SU.expand_safe(fl, s.value, st)) if s.value is not None else ast.Constant(None)
        c = P.try_fold(chk.module, x, default="<nc>")
        guards = [(f.xnode, f.pol) for f in st.facts if f.kind == "cond"]
        if c != "<nc>":
            ok, why = (True, "answers False") if not c else SU.permission_containment(ctx, guards, subj_p, iss_p)
        else:
            parts = x.values if isinstance(x, ast.BoolOp) and isinstance(x.op, ast.Or) else [x]
            ok, why = True, ""
            for part in parts:
                o, w = SU.permission_containment(ctx, cond_atoms(part, True) + guards, subj_p, iss_p)
                ok, why = ok and o, (why + "; " if why else "") + w
        ctx.ob("C09.verify-conjuncts", chk.short(), f"return#{j}", ok,
               f"containment check returns `{pretty(unparse(x))[:120]}`; must be 'issuer may issue all' or all(needed in issuer's allowed): {why}",
               f"{chk.module.rel}:{s.lineno}")
    allw = P.func(f"{CERT}.check_all_requested_permissions_are_allowed")
    roles, why = SU.containment_function(ctx, allw)
    ctx.ob("C09.verify-conjuncts", allw.short(), "all-in", roles is not None, why, allw.loc)

    # ---- message acceptance: PSID within the ticket's permissions, generation time within validity
    vf = P.func(f"{VS}.verify")
    fl = ctx.flows.get(vf)
    if len(vf.params) < 2:
        raise AnalysisError("C09: VerifyService.verify lost its request parameter")
    root = SU.signed_root(vf.params[1])
    for i, c in enumerate(success_sites(ctx, vf)):
        st = fl.state_at(c)
        loc = f"{vf.module.rel}:{c.lineno}"
        true_facts = [f.xnode for f in st.facts if f.kind == "cond" and f.pol]
        # the ticket(s) whose chain verified on this path: receivers of a true `<T>.verify(self.backend)`
        tickets = {sem.cx(n.func.value) for n in true_facts if isinstance(n, ast.Call) and isinstance(n.func, ast.Attribute)
                   and n.func.attr == "verify" and len(n.args) == 1 and sem.same(n.args[0], "self.backend")}
        psid_ok = False
        for n in true_facts:
            if isinstance(n, ast.Compare) and len(n.ops) == 1 and isinstance(n.ops[0], ast.In) and SU.header_field(n.left, root) == "psid":
                r = n.comparators[0]
                if isinstance(r, ast.Call) and isinstance(r.func, ast.Attribute) and not r.args and \
                        r.func.attr in ("get_list_of_its_aid", "get_list_of_psid_from_app_permissions") and sem.cx(r.func.value) in tickets:
                    psid_ok = True
        ctx.ob("C09.msg-psid", vf.short(), f"success#{i}", psid_ok,
               "SUCCESS requires the message's PSID among the signing ticket's appPermissions" if psid_ok else
               "SUCCESS is reported without comparing the message's PSID (headerInfo.psid) with the signing ticket's "
               "appPermissions: a CAM-only ticket can sign a DENM (PSID 37) and is accepted", loc)
        val_ok = False
        for f in st.facts:
            if f.kind != "cond":
                continue
            reads_time = any(SU.header_field(x, root) == "generationTime" for x in ast.walk(f.xnode))
            reads_validity = any(isinstance(x, ast.Subscript) and isinstance(x.slice, ast.Constant) and x.slice.value == "validityPeriod"
                                 and any(sem.cx(y) in tickets for y in ast.walk(x.value) if isinstance(y, ast.expr)) for x in ast.walk(f.xnode))
            on_ticket = f.pol and isinstance(f.xnode, ast.Call) and isinstance(f.xnode.func, ast.Attribute) and \
                sem.cx(f.xnode.func.value) in tickets
            if reads_time and (reads_validity or on_ticket):
                val_ok = True
        ctx.ob("C09.msg-validity", vf.short(), f"success#{i}", val_ok,
               "SUCCESS requires generationTime within the ticket's validityPeriod" if val_ok else
               "SUCCESS is reported without comparing headerInfo.generationTime with the signing ticket's validityPeriod: a "
               "message signed under an expired (or not yet valid) ticket is accepted", loc)

    # ---- issuing
    ic = P.func(f"{OWN}.issue_certificate")
    fl = ctx.flows.get(ic)
    signs = [c for c in P.calls_in(ic) if isinstance(c.func, ast.Attribute) and c.func.attr == "sign_certificate"]
    for j, c in enumerate(signs):
        st = fl.state_at(c)
        if len(ic.params) < 3:
            raise AnalysisError("C09: issue_certificate lost a parameter")
        cert = ic.params[2]
        facts = sem.facts(fl, c) | SU.branch_atoms(fl, c)
        selfsigned = sem.holds(facts, f"{cert}.certificate_is_self_signed()")
        guarded = sem.holds(facts, f"{cert}.check_issuer_has_subject_permissions(self)") and \
            sem.holds(facts, "self.check_enough_min_chain_length_for_issuer()")
        ctx.ob("C09.issuing", ic.short(), f"sign#{j}", selfsigned or guarded,
               "signature " + ("for a self-signed subject" if selfsigned else
                               "only when the subject's permissions are contained in the issuer's and the chain-length budget allows"
                               if guarded else "WITHOUT the permission-containment / chain-length guards"),
               f"{ic.module.rel}:{c.lineno}")
        if guarded:
            args = SU.bind_args(P.func(f"{OWN}.sign_certificate"), c)
            arg = fl.expand(args["certificate"], st) if "certificate" in args else None
            ok = arg is not None and (sem.same(arg, f"{cert}.set_chain_length_issue_permissions(self).set_issuer(self)") or
                                      sem.same(arg, f"{cert}.set_chain_length_issue_permissions(issuer=self).set_issuer(issuer=self)"))
            ctx.ob("C09.issuing", ic.short(), f"sign#{j}:narrowed", ok,
                   f"certificate signed = `{pretty(unparse(arg))[:100] if arg is not None else None}` (chain length narrowed, issuer set)",
                   f"{ic.module.rel}:{c.lineno}")
    # who may sign: the raw signing primitive is reached only through issue_certificate, whose guards were checked above
    sgn = P.func(f"{OWN}.sign_certificate")
    outside = []
    n_callers = 0
    for fi_ in P.iter_funcs():
        for c_ in P.calls_in(fi_):
            if isinstance(c_.func, ast.Attribute) and c_.func.attr == "sign_certificate" and \
                    any(t is sgn for t in P.call_targets(fi_, c_, count=False)):
                n_callers += 1
                if fi_ is not ic:
                    outside.append(f"{fi_.short()} (line {c_.lineno})")
    ctx.ob("C09.issuing", sgn.short(), "called-from-issue-certificate-only", bool(n_callers) and not outside,
           "sign_certificate is called from issue_certificate only (permission containment and chain-length budget stand in front of every signature)"
           if n_callers and not outside else
           f"sign_certificate is also called from {outside[:2]}: a certificate is signed without the issuer's permission-containment / chain-length "
           "checks - an issuer whose budget is spent still hands out certificates that verify", sgn.loc)
    ce = P.func(f"{OWN}.check_enough_min_chain_length_for_issuer")
    ok, why = budget_rule(ctx, ce)
    ctx.ob("C09.issuing", ce.short(), "budget", ok,
           f"issuer may issue only while none of its issuing permissions has minChainLength < 1: {why}", ce.loc)
    sc = P.func(f"{CERT}.set_chain_length_issue_permissions")
    decs = [n for n in ast.walk(sc.node) if isinstance(n, ast.AugAssign) and isinstance(n.op, ast.Sub) and
            "minChainLength" in unparse(n.target) and P.try_fold(sc.module, n.value) == 1]
    ctx.ob("C09.issuing", sc.short(), "decrement-present", len(decs) == 1, f"{len(decs)} decrement(s) of minChainLength", sc.loc)
    fl = ctx.flows.get(sc)
    # the dictionary of the NEW certificate: first constructor argument of what is returned
    new_dicts = set()
    for k, s, st in fl.exits:
        if k == "return" and isinstance(s.value, ast.Call) and s.value.args and isinstance(s.value.args[0], ast.Name):
            new_dicts.add(s.value.args[0].id)
    if len(new_dicts) != 1:
        raise AnalysisError(f"C09: set_chain_length_issue_permissions: returned certificate dictionary not recognised ({sorted(new_dicts)})")
    new_perms = f"{next(iter(new_dicts))}['toBeSigned']['certIssuePermissions']"

    def chain_of(node):
        out, cur = [], node
        while id(cur) in fl.parent:
            cur = fl.parent[id(cur)]
            out.append(cur)
        return out
    for d in decs:
        # the enclosing loop must iterate the NEW certificate's permissions and sit outside any branch of the all/explicit split
        chain = chain_of(d)
        loops = [x for x in chain if isinstance(x, ast.For)]
        ok_iter = bool(loops) and sem.same(SU.unwrap_collection(loops[0].iter), new_perms) and isinstance(loops[0].target, ast.Name) \
            and sem.same(d.target, f"{loops[0].target.id}['minChainLength']") and fl.parent.get(id(d)) is loops[0]
        ifs = [x for x in chain if isinstance(x, ast.If)]
        only_wants = all(sem.atoms(x.test, True) == sem.want("self.certificate_wants_cert_issue_permissions()") and
                         any(loops and loops[0] is y for b_ in x.body for y in ast.walk(b_)) for x in ifs)
        ctx.ob("C09.issuing", sc.short(), "decrement-on-every-path", ok_iter and only_wants,
               "every issuing permission of a CA subject gets minChainLength - 1 whatever the issuer's permission form" if
               ok_iter and only_wants else
               "the minChainLength decrement is not applied on every path (it sits inside one branch of the all/explicit split, "
               "or does not run over the new certificate's permissions): "
               "a sub-CA inherits its issuer's chain-length budget unchanged", f"{sc.module.rel}:{d.lineno}")
    rem = []
    for n in ast.walk(sc.node):
        if not isinstance(n, ast.If):
            continue
        loops = [x for x in chain_of(n) if isinstance(x, ast.For)]
        if not loops or not isinstance(loops[0].target, ast.Name) or fl.parent.get(id(n)) is not loops[0]:
            continue
        v = loops[0].target.id
        if sem.atoms(n.test, True) in (sem.want(f"{v}['minChainLength'] < 1"), sem.want(f"{v}['minChainLength'] <= 0")) and \
                sem.same(SU.unwrap_collection(loops[0].iter), new_perms):
            rem.append((n, loops[0], v))
    ok_rem = bool(rem) and all(any(isinstance(c, ast.Call) and isinstance(c.func, ast.Attribute) and c.func.attr == "remove"
                                   and sem.same(c.func.value, new_perms) and len(c.args) == 1 and sem.same(c.args[0], v)
                                   for b in r.body for c in ast.walk(b)) for r, lp, v in rem)
    if ok_rem and decs:
        # removal happens in a loop that follows the decrement loop in the same block
        dl = [x for x in chain_of(decs[0]) if isinstance(x, ast.For)]
        la, ia = SU.block_of(fl, dl[0]) if dl else (None, -1)
        lb, ib = SU.block_of(fl, rem[0][1])
        ok_rem = la is not None and la is lb and ia < ib
    ctx.ob("C09.issuing", sc.short(), "exhausted-removed", ok_rem,
           "issuing permissions whose budget reached 0 are removed after the decrement", sc.loc)
    ctx.floor("C09.issuing", 6)


def _flows_into_result(P, fl, fi, ret, st, helper: str) -> bool:
    """The list `self.<helper>()` returns is part of what `ret` returns: the call occurs in the (expanded) returned
    expression, or is handed to extend / += on the returned variable on every path (must-call)."""
    def is_helper(c):
        return isinstance(c, ast.Call) and isinstance(c.func, ast.Attribute) and c.func.attr == helper and sem.same(c.func.value, "self") \
            and not c.args and not c.keywords
    x = fl.expand(ret.value, st) if ret.value is not None else None
    if x is not None and any(is_helper(n) for n in ast.walk(x)):
        # the definition the result is built from mentions the helper's list (elements survive list() / dict.fromkeys dedup)
        return True
    var = None
    if isinstance(ret.value, ast.Name):
        var = ret.value.id
    elif x is not None:
        inner = [n for n in ast.walk(ret.value) if isinstance(n, ast.Name) and n.id in st.defs]
        var = inner[0].id if len({n.id for n in inner}) == 1 else None
    if var is None:
        return False
    for f in st.facts:
        if f.kind == "call" and isinstance(f.node, ast.Call) and isinstance(f.node.func, ast.Attribute) and \
                f.node.func.attr == "extend" and isinstance(f.node.func.value, ast.Name) and f.node.func.value.id == var and \
                len(f.node.args) == 1 and isinstance(f.xnode, ast.Call) and f.xnode.args and isinstance(f.xnode.func, ast.Attribute) and \
                any(is_helper(n) for n in ast.walk(f.xnode.args[0])):
            # the list that was extended is the one the result is built from
            recv = sem.cx(f.xnode.func.value)
            if x is not None and any(isinstance(n, ast.expr) and sem.cx(n) == recv for n in ast.walk(x)):
                return True
    return False


def budget_rule(ctx, ce):
    """check_enough_min_chain_length_for_issuer answers truthy only when EVERY issuing permission of self still has
    minChainLength >= 1.  -> (ok, why)"""
    P = ctx.prog
    fl = ctx.flows.get(ce)
    exits = Truth(P, ctx.flows).exits(ce, "truthy")
    if not exits or any(k == "fall" for k, s, st in fl.exits):
        return False, "no truthy exit"

    def good(var, it, elt, elt_pol):
        if not SU.is_issue_permissions(SU.unwrap_collection(it), "self"):
            return False
        v = var.replace("@", "__v")
        at = set(sem.atoms(SU.keepv(elt), elt_pol))
        return sem.holds(at, f"{v}['minChainLength'] >= 1") or sem.holds(at, f"{v}['minChainLength'] > 0")
    for s, st, _ in exits:
        x = SU.peel(SU.expand_safe(fl, s.value, st))
        c = P.try_fold(ce.module, x, default="<nc>")
        cands = []
        if c == "<nc>":
            cands.append(SU.quantified(x, True))
        else:
            lf = SU.loop_forall(fl, ce, s)
            if lf is not None:
                cands.append(("forall", lf[0], lf[1], lf[2], lf[3], []))
            for f in st.facts:
                if f.kind == "cond":
                    cands.append(SU.quantified(f.xnode, f.pol))
        if not any(q is not None and q[0] == "forall" and not q[5] and good(q[1], q[2], q[3], q[4]) for q in cands):
            return False, (f"line {s.lineno}: returns `{pretty(unparse(x))[:70]}` without having established minChainLength >= 1 "
                           "for every entry of self's certIssuePermissions")
    return True, "every truthy answer has established minChainLength >= 1 for all issuing permissions"
