"""Check context: obligations, findings, known-findings ledger, evidence and replay files, exit policy.

exit 0  every obligation holds, or fails only at constructs listed `open:` in KNOWN_FINDINGS.txt
exit 1  VIOLATION property=<id> replay=<path>   (an obligation fails at a construct not listed)
exit 2  ANALYSIS-ERROR (anchor vanished, floor not met, unknown shape, crash) - never a VIOLATION line
"""
from __future__ import annotations

import json
import os
import re
import time
from dataclasses import dataclass, field

from .prog import AnalysisError, Program
from .flow import Flows

VERIF = os.path.dirname(os.path.dirname(os.path.abspath(__file__)))
KNOWN = os.path.join(VERIF, "KNOWN_FINDINGS.txt")
EVID = os.environ.get("FLEXLINT_EVIDENCE_DIR", os.path.join(VERIF, "evidence"))


@dataclass
class Obligation:
    rule: str          # e.g. C02.signed
    construct: str     # qualified construct, e.g. geonet.position_vector.LongPositionVector.encode
    disc: str          # discriminator inside the construct (field, sink, path), never a line number
    ok: bool
    detail: str
    loc: str = ""      # file:line for the human reader (not part of the key)

    @property
    def key(self) -> str:
        return f"{self.rule} | {self.construct} | {self.disc}"


def load_known(prop: str) -> dict:
    out = {}
    if not os.path.exists(KNOWN):
        return out
    for line in open(KNOWN, encoding="utf-8"):
        line = line.strip()
        if not line.startswith("open:"):
            continue
        m = re.match(r"open:\s+property=(\S+)\s+key=\[(.*?)\]\s*::\s*(.*)$", line)
        if m and m.group(1) == prop:
            out[m.group(2).strip()] = m.group(3).strip()
    return out


class Ctx:
    def __init__(self, prop: str, tier: str, prog: Program = None, quiet: bool = False):
        self.prop = prop
        self.tier = tier
        self.seed = int(os.environ.get("VERIF_SEED", "0") or 0)
        self.t0 = time.time()
        self.prog = prog or Program()
        self.flows = Flows(self.prog)
        self.obs: list[Obligation] = []
        self.floors: list = []
        self.notes: list[str] = []
        self.samples: list = []
        self.assumptions: list[str] = []
        self.declined: list[str] = []
        self.explanation = ""
        self.rule_text = ""
        self.extra: dict = {}
        self.quiet = quiet

    # ---------------------------------------------------------------- recording
    def ob(self, rule: str, construct: str, disc: str, ok: bool, detail: str = "", loc: str = "") -> bool:
        self.obs.append(Obligation(rule, construct, str(disc), bool(ok), detail, loc))
        return bool(ok)

    def floor(self, rule: str, minimum: int, what: str = "instances") -> None:
        """Vacuity control: the rule must still find (most of) the constructs it was confirmed on.

        `minimum` is the number of instances confirmed by hand on the reference tree; the floor that is enforced is 75 % of
        it (at least 1): a legitimate change that removes a send site or merges two stores must not break the check, while
        a rule that lost its anchors (matches a fraction of what it did, or nothing) must not pass vacuously."""
        n = sum(1 for o in self.obs if o.rule == rule)
        eff = max(1, (int(minimum) * 3) // 4)
        self.floors.append((rule, eff, n, what + f" (confirmed: {minimum})"))
        # evaluated in finish(): a failing obligation (VIOLATION) takes precedence over a missed floor

    def note(self, text: str) -> None:
        self.notes.append(text)

    def sample(self, obj) -> None:
        if len(self.samples) < 12:
            self.samples.append(obj)

    # ---------------------------------------------------------------- finishing
    def finish(self) -> int:
        known = load_known(self.prop)
        failed = [o for o in self.obs if not o.ok]
        new, matched = [], []
        seen = set()
        for o in failed:
            if o.key in seen:
                continue
            seen.add(o.key)
            (matched if o.key in known else new).append(o)
        out = []
        rules = sorted({o.rule for o in self.obs})
        out.append(f"[{self.prop}] tier={self.tier} tree-digest={self.prog.digest} obligations={len(self.obs)} "
                   f"failed={len(failed)} rules={len(rules)}")
        for r in rules:
            n = sum(1 for o in self.obs if o.rule == r)
            nf = sum(1 for o in self.obs if o.rule == r and not o.ok)
            out.append(f"  rule {r}: {n} instances, {nf} failing")
        for n in self.notes:
            out.append(f"  note: {n}")
        for o in matched:
            out.append(f"KNOWN-FINDING: property={self.prop} {o.key} :: {o.detail} [{o.loc}]")
        stale = [k for k in known if k not in {o.key for o in failed}]
        for k in stale:
            out.append(f"  note: ledger entry no longer reproduced (fixed or construct renamed): {k}")
        replay = None
        if new:
            os.makedirs(os.path.join(EVID, "replay"), exist_ok=True)
            replay = os.path.join(EVID, "replay", f"{self.prop}.json")
            json.dump({"property": self.prop, "tree_digest": self.prog.digest,
                       "violations": [{"key": o.key, "rule": o.rule, "construct": o.construct, "disc": o.disc,
                                       "detail": o.detail, "loc": o.loc} for o in new]},
                      open(replay, "w"), indent=1)
            for o in new:
                out.append(f"  violation: {o.loc}: rule {o.rule} at {o.construct} [{o.disc}]: {o.detail}")
        self._write_evidence(len(new), len(matched), rules)
        if not self.quiet:
            print("\n".join(out))
        if new:
            print(f"VIOLATION property={self.prop} replay={replay}")
            return 1
        for rule, minimum, n, what in self.floors:
            if n < minimum:
                raise AnalysisError(f"rule {rule}: only {n} {what} found, confirmed floor is {minimum} "
                                    f"(vacuity control: the rule no longer finds the constructs it was confirmed on)")
        return 0

    def _write_evidence(self, n_new: int, n_known: int, rules: list) -> None:
        os.makedirs(EVID, exist_ok=True)
        distinct = len({(o.rule, o.construct, o.disc) for o in self.obs})
        samples = list(self.samples)
        for o in self.obs:
            if len(samples) >= 10:
                break
            samples.append({"rule": o.rule, "construct": o.construct, "instance": o.disc, "holds": o.ok,
                            "detail": o.detail[:300], "loc": o.loc})
        try:
            res = self.prog.resolution_stats()
            res.pop("unresolved_samples", None)
        except Exception:  # pragma: no cover
            res = {}
        cov = {
            "explanation": self.explanation,
            "evaluations": len(self.obs),
            "distinct_nontrivial": distinct,
            "rule": self.rule_text or ("each obligation is one (rule, construct, instance) triple enumerated from the "
                                       "resolved program on this run; distinct = distinct triples"),
            "samples": samples,
            "obligations": len(self.obs),
            "discharged": sum(1 for o in self.obs if o.ok),
            "known_findings_matched": n_known,
            "rules": {r: {"instances": sum(1 for o in self.obs if o.rule == r),
                          "failing": sum(1 for o in self.obs if o.rule == r and not o.ok)} for r in rules},
            "floors": [{"rule": r, "min": m, "found": n, "unit": w} for r, m, n, w in self.floors],
            "analysed": {"modules": len(self.prog.modules), "classes": len(self.prog.classes),
                         "functions": len(self.prog.funcs), "tree_digest": self.prog.digest, **res},
            "declined_clauses": self.declined,
            "notes": self.notes[:40],
        }
        cov.update(self.extra)
        ev = {
            "property_id": self.prop,
            "tier": self.tier,
            "seed": self.seed,
            "level": "other",
            "coverage": cov,
            "assumptions": self.assumptions + [
                "trusted base: CPython ast, flexlint loader/resolver/flow walker, the wiring table, embedded spec tables",
                "no run-time monkey-patching of the analysed classes; implicit AttributeError/TypeError not modelled",
            ],
            "wall_s": round(time.time() - self.t0, 3),
            "violations": n_new,
        }
        json.dump(ev, open(os.path.join(EVID, f"{self.prop}.json"), "w"), indent=1, default=str)
