"""Canonical forms of conditions and expressions, so that rules compare MEANING rather than source text.

Two conditions get the same canonical atoms when they differ only by: operand order of ==, is, and, or, +, *;
`a < b` vs `b > a`; `not a > b` vs `a <= b`; `x != y` vs `not x == y`; `len(x) > 0` / `len(x) != 0` / `bool(x)` / `x`;
`len(x) == 0` vs `not x`; nested ifs vs `and`; `m[:6]` vs `m[0:6]`; redundant parentheses; names of locals that have a
unique definition (rules pass expanded nodes).  Atoms are strings; a negative atom carries a leading '!'.
"""
from __future__ import annotations

import ast
from typing import Iterable, Optional

from .prog import dotted, unparse


def _strip_versions(s: str) -> str:
    import re
    return re.sub(r"@p?[0-9_]+", "", s)


def cx(e: ast.AST) -> str:
    """Canonical text of an expression."""
    if isinstance(e, ast.Constant):
        return repr(e.value)
    if isinstance(e, ast.Name):
        return _strip_versions(e.id)
    if isinstance(e, ast.Attribute):
        return f"{cx(e.value)}.{e.attr}"
    if isinstance(e, ast.Subscript):
        sl = e.slice
        if isinstance(sl, ast.Slice):
            lo = cx(sl.lower) if sl.lower is not None else "0"
            hi = cx(sl.upper) if sl.upper is not None else ""
            st = f":{cx(sl.step)}" if sl.step is not None else ""
            return f"{cx(e.value)}[{lo}:{hi}{st}]"
        return f"{cx(e.value)}[{cx(sl)}]"
    if isinstance(e, ast.Call):
        args = [cx(a) for a in e.args] + sorted(f"{k.arg}={cx(k.value)}" for k in e.keywords if k.arg) + \
               [f"**{cx(k.value)}" for k in e.keywords if not k.arg]
        return f"{cx(e.func)}({','.join(args)})"
    if isinstance(e, ast.BinOp):
        op = type(e.op).__name__
        if isinstance(e.op, (ast.Add, ast.Mult, ast.BitAnd, ast.BitOr, ast.BitXor)):
            # flatten and sort commutative chains of the same operator
            items = []

            def flat(x):
                if isinstance(x, ast.BinOp) and type(x.op) is type(e.op):
                    flat(x.left); flat(x.right)
                else:
                    items.append(cx(x))
            flat(e)
            # string / bytes concatenation is not commutative: keep order when any operand is a str/bytes literal or a call
            if isinstance(e.op, ast.Add) and any(i.startswith(("'", "b'", '"')) for i in items):
                return "(" + f" {op} ".join(items) + ")"
            return "(" + f" {op} ".join(sorted(items)) + ")"
        return f"({cx(e.left)} {op} {cx(e.right)})"
    if isinstance(e, ast.UnaryOp):
        if isinstance(e.op, ast.Not):
            a = atoms(e, True)
            return "&".join(sorted(a))
        return f"{type(e.op).__name__}({cx(e.operand)})"
    if isinstance(e, ast.BoolOp) and any(isinstance(v, ast.Constant) and not isinstance(v.value, bool) for v in e.values):
        # a value expression (`x or "default"`), not a condition: keep the operands and their order
        return ("orv(" if isinstance(e.op, ast.Or) else "andv(") + ",".join(cx(v) for v in e.values) + ")"
    if isinstance(e, (ast.Compare, ast.BoolOp)):
        return "&".join(sorted(atoms(e, True)))
    if isinstance(e, (ast.Tuple, ast.List)):
        return "(" + ",".join(cx(x) for x in e.elts) + ")"
    if isinstance(e, ast.Set):
        return "{" + ",".join(sorted(cx(x) for x in e.elts)) + "}"
    if isinstance(e, ast.IfExp):
        return f"if({'&'.join(sorted(atoms(e.test, True)))}?{cx(e.body)}:{cx(e.orelse)})"
    if isinstance(e, ast.Starred):
        return "*" + cx(e.value)
    return _strip_versions(unparse(e).replace(" ", ""))


def _neg(a: str) -> str:
    return a[1:] if a.startswith("!") else "!" + a


def _truthy(e: ast.AST) -> Optional[str]:
    """x / bool(x) / len(x) [> 0 handled by caller] -> truthy(<x>)"""
    if isinstance(e, ast.Call) and dotted(e.func) == "bool" and len(e.args) == 1:
        return f"truthy({cx(e.args[0])})"
    return f"truthy({cx(e)})"


def _len_of(e: ast.AST) -> Optional[ast.AST]:
    if isinstance(e, ast.Call) and dotted(e.func) == "len" and len(e.args) == 1:
        return e.args[0]
    return None


def atoms(test: ast.AST, pol: bool = True) -> list:
    """Canonical atoms that certainly hold when `test` evaluates to `pol`."""
    if isinstance(test, ast.UnaryOp) and isinstance(test.op, ast.Not):
        return atoms(test.operand, not pol)
    if isinstance(test, ast.BoolOp):
        # neutral constants: `a or False`, `a and True` say what `a` says
        neutral = isinstance(test.op, ast.And)
        vals = [v for v in test.values if not (isinstance(v, ast.Constant) and isinstance(v.value, bool) and v.value is neutral)]
        if len(vals) < len(test.values):
            if not vals:
                return [] if neutral == pol else ["false()"]
            if len(vals) == 1:
                return atoms(vals[0], pol)
            test = ast.BoolOp(op=test.op, values=vals)
        split = (isinstance(test.op, ast.And) and pol) or (isinstance(test.op, ast.Or) and not pol)
        if split:
            out = []
            for v in test.values:
                out += atoms(v, pol)
            return out
        # a disjunction that holds (or a conjunction that fails): one composite atom over sorted members
        # (Or, True) = a or b ; (And, False) = (not a) or (not b): members carry polarity `pol` in both cases
        parts = sorted("&".join(sorted(atoms(v, pol))) for v in test.values)
        return ["or(" + "|".join(parts) + ")"]
    if isinstance(test, ast.Compare):
        if len(test.ops) > 1:
            if pol:
                out, left = [], test.left
                for op, right in zip(test.ops, test.comparators):
                    out += atoms(ast.Compare(left=left, ops=[op], comparators=[right]), True)
                    left = right
                return out
            return ["!" + "&".join(sorted(atoms(test, True)))]
        op, a, b = test.ops[0], test.left, test.comparators[0]
        # len(x) compared with 0 / 1
        for x, y, flip in ((a, b, False), (b, a, True)):
            lx = _len_of(x)
            if lx is not None and isinstance(y, ast.Constant) and y.value in (0, 1):
                o = type(op)
                if flip:
                    o = {ast.Lt: ast.Gt, ast.Gt: ast.Lt, ast.LtE: ast.GtE, ast.GtE: ast.LtE}.get(o, o)
                t = f"truthy({cx(lx)})"
                nonempty = None
                if y.value == 0:
                    nonempty = {ast.Gt: True, ast.NotEq: True, ast.Eq: False, ast.LtE: False}.get(o)
                else:
                    nonempty = {ast.GtE: True, ast.Lt: False}.get(o)
                if nonempty is not None:
                    return [t if nonempty == pol else "!" + t]
        if isinstance(op, (ast.Eq, ast.NotEq, ast.Is, ast.IsNot)):
            name = "eq" if isinstance(op, (ast.Eq, ast.NotEq)) else "is"
            neg = isinstance(op, (ast.NotEq, ast.IsNot))
            l, r = sorted([cx(a), cx(b)])
            s = f"{name}({l},{r})"
            return [s if (pol != neg) else "!" + s]
        if isinstance(op, (ast.In, ast.NotIn)):
            s = f"in({cx(a)},{cx(b)})"
            return [s if (pol != isinstance(op, ast.NotIn)) else "!" + s]
        if isinstance(op, (ast.Lt, ast.LtE, ast.Gt, ast.GtE)):
            # canonical: gt(x,y) / ge(x,y)
            if isinstance(op, ast.Lt):
                kind, x, y = "gt", b, a
            elif isinstance(op, ast.LtE):
                kind, x, y = "ge", b, a
            elif isinstance(op, ast.Gt):
                kind, x, y = "gt", a, b
            else:
                kind, x, y = "ge", a, b
            if not pol:
                kind, x, y = ("ge" if kind == "gt" else "gt"), y, x
            return [f"{kind}({cx(x)},{cx(y)})"]
        return [("" if pol else "!") + cx(test)]
    if isinstance(test, ast.Constant):
        return []
    t = _truthy(test)
    return [t if pol else "!" + t]


def want(src: str, pol: bool = True) -> list:
    """Canonical atoms of a condition given as Python source."""
    return atoms(ast.parse(src, mode="eval").body, pol)


def facts(fl, node: ast.AST, expanded: bool = True, both: bool = True) -> set:
    """Canonical guard atoms in force at `node`.  expanded: locals replaced by their unique definitions; both: the
    as-written form is included as well (convenient for `holds`, wrong for exact-set comparisons: pass both=False)."""
    st = fl.state_at(node)
    return facts_of_state(st, expanded, both)


def facts_of_state(st, expanded: bool = True, both: bool = True) -> set:
    out = set()
    for f in st.facts:
        if f.kind != "cond":
            continue
        n = f.xnode if expanded else f.node
        for a in atoms(n, f.pol):
            out.add(a)
        if expanded and both and f.xnode is not f.node:
            for a in atoms(f.node, f.pol):
                out.add(a)
    return out


def holds(fs: Iterable, src: str, pol: bool = True) -> bool:
    """All canonical atoms of `src` (with polarity) are among the facts."""
    w = want(src, pol)
    fs = set(fs)
    return bool(w) and all(a in fs for a in w)


def same(a: ast.AST, b) -> bool:
    """Expressions equal up to canonical form; `b` may be source text."""
    if isinstance(b, str):
        b = ast.parse(b, mode="eval").body
    return cx(a) == cx(b)


def mentions(fs: Iterable, needle: str) -> list:
    return sorted(a for a in fs if needle in a)


# ---------------------------------------------------------------------------------------------------------------------
# path conditions (DNF): every way of reaching a node from the function entry, as sets of canonical atoms
# ---------------------------------------------------------------------------------------------------------------------
def path_conditions(func_node: ast.AST, target: ast.AST, limit: int = 512, kill_rebound: bool = True) -> list:
    """[set(atoms)] - one set per syntactic path from the entry of `func_node` to the statement containing `target`.

    If-tests contribute their atoms (either polarity); loops contribute their test on entry and nothing after; a
    `return`/`raise`/`continue`/`break` ends a path.  Atoms are over the SOURCE expressions (no expansion of locals);
    atoms about names re-bound along the path are dropped from that point on.  Path explosion beyond `limit` raises."""
    tstmt = None

    def contains(s, t):
        return any(x is t for x in ast.walk(s))

    class Found(Exception):
        pass

    results = []

    def kill(conds: frozenset, stmt) -> frozenset:
        if not kill_rebound:
            return conds          # "the decision was taken under these tests", whatever was stored afterwards
        names = set()
        for n in ast.walk(stmt):
            if isinstance(n, ast.Name) and isinstance(n.ctx, (ast.Store, ast.Del)):
                names.add(n.id)
            elif isinstance(n, ast.Attribute) and isinstance(n.ctx, (ast.Store, ast.Del)):
                d = dotted(n)
                if d:
                    names.add(d)
        if not names:
            return conds
        import re
        out = set()
        for a in conds:
            toks = set(re.findall(r"[A-Za-z_][A-Za-z_0-9.]*", a))
            if any(t == nm or t.startswith(nm + ".") for t in toks for nm in names):
                continue
            out.add(a)
        return frozenset(out)

    def block(stmts, conds_list):
        """-> list of condition sets that fall through the block"""
        cur = conds_list
        for s in stmts:
            if not cur:
                return []
            if contains(s, target) and not isinstance(s, (ast.If, ast.For, ast.While, ast.With, ast.Try, ast.AsyncWith, ast.AsyncFor)):
                results.extend(cur)
                raise Found
            cur = stmt(s, cur)
            if len(cur) > limit:
                raise ValueError("path explosion")
        return cur

    def stmt(s, cur):
        if isinstance(s, (ast.Return, ast.Raise, ast.Continue, ast.Break)):
            return []
        if isinstance(s, ast.If):
            if contains(s.test, target):
                results.extend(cur)
                raise Found
            t = [frozenset(c | set(atoms(s.test, True))) for c in cur]
            f = [frozenset(c | set(atoms(s.test, False))) for c in cur]
            out = block(s.body, t) + (block(s.orelse, f) if s.orelse else f)
            # de-duplicate
            return list(dict.fromkeys(out))
        if isinstance(s, (ast.With, ast.AsyncWith)):
            return block(s.body, cur)
        if isinstance(s, ast.Try):
            out = block(s.body, cur)
            for h in s.handlers:
                out = out + block(h.body, cur)
            if s.orelse:
                out = block(s.orelse, out)
            if s.finalbody:
                out = block(s.finalbody, out)
            return list(dict.fromkeys(out))
        if isinstance(s, (ast.For, ast.AsyncFor, ast.While)):
            inner = cur
            if isinstance(s, ast.While):
                inner = [frozenset(c | set(atoms(s.test, True))) for c in cur]
            try:
                block(s.body, inner)
            except Found:
                raise
            return [kill(c, s) for c in cur]
        return [kill(c, s) for c in cur]

    try:
        block(func_node.body, [frozenset()])
    except Found:
        pass
    return [set(c) for c in dict.fromkeys(results)]


def eq_other(test: ast.AST, is_subject) -> Optional[ast.AST]:
    """For a single `==` / `is` comparison one of whose operands satisfies `is_subject`, the OTHER operand (either order)."""
    if isinstance(test, ast.Compare) and len(test.ops) == 1 and isinstance(test.ops[0], (ast.Eq, ast.Is)):
        a, b = test.left, test.comparators[0]
        if is_subject(a):
            return b
        if is_subject(b):
            return a
    return None


def paths_to(func_node: ast.AST, target: ast.AST, limit: int = 2048) -> list:
    """Like path_conditions, but each path also lists the simple statements executed on it:
    [(set(atoms), [stmt, ...])].  Branch statements contribute their tests to the atoms and their chosen bodies to the
    statement list; `try` bodies are followed (handlers as alternative continuations); loop bodies are taken zero or one
    time.  Atoms are never killed (they state under which tests the path was chosen)."""
    results = []

    class Found(Exception):
        pass

    def contains(s, t):
        return any(x is t for x in ast.walk(s))

    def block(stmts, paths):
        cur = paths
        for s in stmts:
            if not cur:
                return []
            if contains(s, target) and not isinstance(s, (ast.If, ast.For, ast.While, ast.With, ast.Try, ast.AsyncWith, ast.AsyncFor)):
                results.extend(cur)
                raise Found
            cur = stmt(s, cur)
            if len(cur) > limit:
                raise ValueError("path explosion")
        return cur

    def stmt(s, cur):
        if isinstance(s, (ast.Return, ast.Raise, ast.Continue, ast.Break)):
            return []
        if isinstance(s, ast.If):
            if contains(s.test, target):
                results.extend(cur)
                raise Found
            t = [(c | frozenset(atoms(s.test, True)), st) for c, st in cur]
            f = [(c | frozenset(atoms(s.test, False)), st) for c, st in cur]
            return block(s.body, t) + (block(s.orelse, f) if s.orelse else f)
        if isinstance(s, (ast.With, ast.AsyncWith)):
            return block(s.body, cur)
        if isinstance(s, ast.Try):
            out = block(s.body, cur)
            for h in s.handlers:
                out = out + block(h.body, cur)
            if s.orelse:
                out = block(s.orelse, out)
            if s.finalbody:
                out = block(s.finalbody, out)
            return out
        if isinstance(s, (ast.For, ast.AsyncFor, ast.While)):
            once = block(s.body, cur)
            return cur + once
        return [(c, st + [s]) for c, st in cur]

    try:
        block(func_node.body, [(frozenset(), [])])
    except Found:
        pass
    return [(set(c), st) for c, st in results]
