"""Program model: loader, symbol tables, constant folding, light type inference, call resolution.

Everything is computed from the source text of the tree under analysis (default /repo, override
with env FLEXLINT_REPO for the self-test on scratch copies).  No repository code is imported.
"""
from __future__ import annotations

import ast
import copy
import hashlib
import os
from dataclasses import dataclass, field
from typing import Iterable, Optional

REPO = os.environ.get("FLEXLINT_REPO", "/repo")
SRC_PKG = "flexstack"


def normalise(tree: ast.AST) -> ast.AST:
    """Canonicalising pre-pass (copy propagation of single-use temporaries), applied to every module before analysis:

        t = EXPR            ->        return EXPR
        return t

    when `t` is a plain local (not global / nonlocal, not referenced from a nested scope): the path ends at the return, so
    the binding cannot be observed; likewise `c = TEST; if c: ...` with c used nowhere else becomes `if TEST: ...`.
    Behaviour is unchanged; the rules then see the
    returned expression whether or not the author routed it through a local.  Before that, `return A if c else B` is
    unfolded into `if c: return A` followed by `return B`."""
    # return A if c else B   ->   if c: return A / return B     (one spelling for exit-by-exit rules; nested ternaries unfold too)
    def unfold(ret: ast.Return) -> list:
        v = ret.value
        if not isinstance(v, ast.IfExp):
            return [ret]
        a = ast.copy_location(ast.Return(value=v.body), v.body)
        b = ast.copy_location(ast.Return(value=v.orelse), v.orelse)
        iff = ast.copy_location(ast.If(test=v.test, body=unfold(a), orelse=[]), ret)
        return [iff] + unfold(b)
    def unfold_all():
        for blk in list(ast.walk(tree)):
            for fld in ("body", "orelse", "finalbody"):
                lst = getattr(blk, fld, None)
                if isinstance(lst, list) and lst and isinstance(lst[0], ast.stmt):
                    out = []
                    for st in lst:
                        out.extend(unfold(st) if isinstance(st, ast.Return) else [st])
                    lst[:] = out
    unfold_all()
    for fn in ast.walk(tree):
        if not isinstance(fn, (ast.FunctionDef, ast.AsyncFunctionDef)):
            continue
        # names that may be observed outside the straight-line path: declared global / nonlocal, or referenced from a nested scope
        shared: set = set()
        uses: dict = {}
        for n in ast.walk(fn):
            if isinstance(n, ast.Name):
                uses[n.id] = uses.get(n.id, 0) + 1
        for n in ast.walk(fn):
            if isinstance(n, (ast.Global, ast.Nonlocal)):
                shared.update(n.names)
            elif n is not fn and isinstance(n, (ast.FunctionDef, ast.AsyncFunctionDef, ast.Lambda, ast.ClassDef, ast.GeneratorExp,
                                                 ast.ListComp, ast.SetComp, ast.DictComp)):
                for x in ast.walk(n):
                    if isinstance(x, ast.Name):
                        shared.add(x.id)
        for blk in ast.walk(fn):
            for fld in ("body", "orelse", "finalbody"):
                lst = getattr(blk, fld, None)
                if not (isinstance(lst, list) and len(lst) >= 2 and isinstance(lst[0], ast.stmt)):
                    continue
                i = 0
                while i + 1 < len(lst):
                    a, r = lst[i], lst[i + 1]
                    tgt = None
                    if isinstance(a, ast.Assign) and len(a.targets) == 1 and isinstance(a.targets[0], ast.Name):
                        tgt = a.targets[0].id
                    elif isinstance(a, ast.AnnAssign) and a.value is not None and isinstance(a.target, ast.Name):
                        tgt = a.target.id
                    if tgt is not None and isinstance(r, ast.If) and isinstance(r.test, ast.Name) and r.test.id == tgt \
                            and tgt not in shared and uses.get(tgt, 0) == 2:
                        # c = TEST; if c: ...   (c used nowhere else)  ->  if TEST: ...
                        r.test = a.value
                        del lst[i]
                        continue
                    if tgt is not None and isinstance(r, ast.Return) and isinstance(r.value, ast.Name) and r.value.id == tgt \
                            and tgt not in shared:
                        new = ast.Return(value=a.value)
                        ast.copy_location(new, a)
                        new.end_lineno, new.end_col_offset = getattr(r, "end_lineno", None), getattr(r, "end_col_offset", None)
                        lst[i:i + 2] = [new]
                        continue
                    i += 1
    unfold_all()
    return tree


class AnalysisError(Exception):
    """The analysis could not be carried out (vanished anchor, unknown shape, floor not met)."""


# --------------------------------------------------------------------------------------------
# data classes
# --------------------------------------------------------------------------------------------
@dataclass
class ModuleInfo:
    name: str                     # dotted, e.g. flexstack.geonet.router
    path: str                     # absolute path
    rel: str                      # path relative to repo root
    tree: ast.Module
    src: str
    imports: dict = field(default_factory=dict)   # local name -> ("mod", dotted) | ("attr", dotted_mod, attr)
    consts: dict = field(default_factory=dict)    # name -> ast value node (module level simple assigns)
    classes: dict = field(default_factory=dict)   # name -> ClassInfo
    funcs: dict = field(default_factory=dict)     # name -> FuncInfo (module level)
    is_data: bool = False                          # large ASN.1 text modules


@dataclass
class ClassInfo:
    name: str
    qual: str                     # module.Class
    module: ModuleInfo
    node: ast.ClassDef
    base_exprs: list = field(default_factory=list)
    bases: list = field(default_factory=list)     # resolved ClassInfo or external dotted str
    methods: dict = field(default_factory=dict)   # name -> FuncInfo
    is_enum: bool = False
    enum_members: dict = field(default_factory=dict)  # name -> folded value (or ast node)
    dataclass: bool = False
    frozen: bool = False
    fields: dict = field(default_factory=dict)    # class-level annotated fields: name -> (annotation node, default node|None)
    attr_types: dict = field(default_factory=dict)  # inferred instance attribute types: name -> set[str qual | builtin tag]
    subclasses: list = field(default_factory=list)

    def mro(self) -> list:
        out, seen = [], set()

        def rec(c):
            if isinstance(c, ClassInfo) and c.qual not in seen:
                seen.add(c.qual)
                out.append(c)
                for b in c.bases:
                    rec(b)
        rec(self)
        return out

    def find_method(self, name: str) -> Optional["FuncInfo"]:
        for c in self.mro():
            if name in c.methods:
                return c.methods[name]
        return None

    def all_subclasses(self) -> list:
        out, todo, seen = [], list(self.subclasses), set()
        while todo:
            c = todo.pop()
            if c.qual in seen:
                continue
            seen.add(c.qual)
            out.append(c)
            todo.extend(c.subclasses)
        return out

    def external_bases(self) -> list:
        out = []
        for c in self.mro():
            for b in c.bases:
                if isinstance(b, str):
                    out.append(b)
        return out


@dataclass
class FuncInfo:
    name: str
    qual: str                     # module.Class.func or module.func
    module: ModuleInfo
    node: ast.FunctionDef
    cls: Optional[ClassInfo] = None
    kind: str = "method"          # method | classmethod | staticmethod | function | property
    parent: Optional["FuncInfo"] = None   # for nested functions

    @property
    def params(self) -> list:
        a = self.node.args
        names = [x.arg for x in a.posonlyargs + a.args]
        return names

    @property
    def loc(self) -> str:
        return f"{self.module.rel}:{self.node.lineno}"

    def short(self) -> str:
        return self.qual[len(SRC_PKG) + 1:] if self.qual.startswith(SRC_PKG + ".") else self.qual


# --------------------------------------------------------------------------------------------
# helpers
# --------------------------------------------------------------------------------------------
def dotted(node: ast.AST) -> Optional[str]:
    """a.b.c for Name/Attribute chains (else None)."""
    parts = []
    while isinstance(node, ast.Attribute):
        parts.append(node.attr)
        node = node.value
    if isinstance(node, ast.Name):
        parts.append(node.id)
        return ".".join(reversed(parts))
    return None


def unparse(node) -> str:
    try:
        return ast.unparse(node)
    except Exception:  # pragma: no cover
        return "<?>"


_BUILTIN_METHODS = set()
for _t in (dict, list, set, str, bytes, tuple, int, float, bytearray, frozenset):
    _BUILTIN_METHODS |= {n for n in dir(_t) if not n.startswith('__')}
BUILTIN_EXC = {}
for _n in dir(__builtins__) if not isinstance(__builtins__, dict) else list(__builtins__):
    _o = (__builtins__[_n] if isinstance(__builtins__, dict) else getattr(__builtins__, _n))
    if isinstance(_o, type) and issubclass(_o, BaseException):
        BUILTIN_EXC[_n] = _o


# --------------------------------------------------------------------------------------------
# Program
# --------------------------------------------------------------------------------------------
class Program:
    DATA_SIZE = 40_000   # modules above this size consisting of string constants are "data"

    def __init__(self, repo: str = None, with_examples: bool = True):
        self.repo = repo or REPO
        self.modules: dict[str, ModuleInfo] = {}
        self.classes: dict[str, ClassInfo] = {}
        self.funcs: dict[str, FuncInfo] = {}
        self.examples: dict[str, ModuleInfo] = {}
        self.func_of_node: dict[int, FuncInfo] = {}
        self._fold_stack: set = set()
        self._load(with_examples)
        self._link()
        self._infer_attr_types()
        self.stats = {"calls_total": 0, "calls_resolved": 0, "calls_external": 0, "calls_unresolved": 0}

    # ---------------------------------------------------------------- loading
    def _load(self, with_examples: bool) -> None:
        root = os.path.join(self.repo, "src", SRC_PKG)
        if not os.path.isdir(root):
            raise AnalysisError(f"source root {root} not found")
        h = hashlib.sha256()
        for dp, dn, fn in sorted(os.walk(root)):
            dn.sort()
            for f in sorted(fn):
                if not f.endswith(".py"):
                    continue
                p = os.path.join(dp, f)
                rel = os.path.relpath(p, self.repo)
                modname = os.path.relpath(p, os.path.join(self.repo, "src"))[:-3].replace(os.sep, ".")
                if modname.endswith(".__init__"):
                    modname = modname[: -len(".__init__")]
                src = open(p, encoding="utf-8").read()
                h.update(rel.encode() + b"\0" + src.encode())
                try:
                    tree = ast.parse(src, filename=p)
                except SyntaxError as e:
                    raise AnalysisError(f"syntax error in {rel}: {e}")
                tree = normalise(tree)
                m = ModuleInfo(modname, p, rel, tree, src)
                self.modules[modname] = m
        self.digest = h.hexdigest()[:16]
        if with_examples:
            ex = os.path.join(self.repo, "examples")
            if os.path.isdir(ex):
                for f in sorted(os.listdir(ex)):
                    if f.endswith(".py"):
                        p = os.path.join(ex, f)
                        src = open(p, encoding="utf-8").read()
                        try:
                            tree = ast.parse(src)
                        except SyntaxError:
                            continue
                        self.examples[f] = ModuleInfo("examples." + f[:-3], p, os.path.relpath(p, self.repo), tree, src)
        self._normalise_delegates()
        for m in list(self.modules.values()) + list(self.examples.values()):
            self._index_module(m)
        self._normalise_aliases()
        self._normalise_calls()
        if not os.environ.get("FLEXLINT_KEEP_CONST_NAMES"):
            self._inline_constants()

    def _normalise_delegates(self) -> None:
        """Canonicalising pass run before indexing: a method that only hands its own parameters to a private method of the
        same class which nothing else refers to,

            def m(self, a, b=1):                      def m(self, a, b=1):
                [with CTX:]                 ->            [with CTX:]
                    return self._x(a, b)                      BODY of _x
            def _x(self, a, b): BODY

        is analysed as if the body were written in place (and `_x` is gone).  `_x` must be private by name (public methods are
        part of the interface the rules are anchored at), not be defined in a class related by inheritance
        (no override can intercept the call), be undecorated, take exactly the forwarded parameters, and be mentioned
        nowhere else (attribute reference or string).  Behaviour is unchanged; rules anchored at `m` then see its work
        whether or not the author moved it into a helper, e.g. to wrap it in a lock."""
        refs: dict = {}          # attribute name -> references anywhere
        strings: set = set()
        mods = list(self.modules.values()) + list(self.examples.values())
        classes = [c for m in mods for c in ast.walk(m.tree) if isinstance(c, ast.ClassDef)]
        for m in mods:
            for n in ast.walk(m.tree):
                if isinstance(n, ast.Attribute):
                    refs[n.attr] = refs.get(n.attr, 0) + 1
                elif isinstance(n, ast.Constant) and isinstance(n.value, str) and n.value.isidentifier():
                    strings.add(n.value)
        own_refs: dict = {}      # (class, attribute name) -> `self.<name>` references inside the class
        defining: dict = {}      # method name -> classes defining it
        for c in classes:
            for st in c.body:
                if isinstance(st, (ast.FunctionDef, ast.AsyncFunctionDef)):
                    defining.setdefault(st.name, []).append(c)
            for n in ast.walk(c):
                if isinstance(n, ast.Attribute) and isinstance(n.value, ast.Name) and n.value.id == "self":
                    own_refs[(id(c), n.attr)] = own_refs.get((id(c), n.attr), 0) + 1
        # simple-name inheritance relation, closed both ways: a method of a related class could intercept or share the call
        by_name: dict = {}
        for c in classes:
            by_name.setdefault(c.name, []).append(c)

        def base_names(c):
            return {b.id if isinstance(b, ast.Name) else b.attr for b in c.bases if isinstance(b, (ast.Name, ast.Attribute))}

        def related(c) -> set:
            """ancestors and descendants of c (siblings under a common base do not see each other's private methods)"""
            out = {id(c)}
            for step in (lambda k: [b for nm in base_names(k) for b in by_name.get(nm, [])],
                         lambda k: [d for d in classes if k.name in base_names(d)]):
                work = [c]
                while work:
                    for d in step(work.pop()):
                        if id(d) not in out:
                            out.add(id(d))
                            work.append(d)
            return out

        def exclusive(c, name, via) -> bool:
            """`name` is referred to once inside `c`, only from inside the classes that define their own method of that name,
            and no class related to `c` by inheritance defines it too."""
            ds = defining.get(name, [])
            if own_refs.get((id(c), name), 0) != 1 or name in strings:
                return False
            if sum(own_refs.get((id(d), name), 0) for d in ds) != refs.get(name, 0):
                return False
            rel = related(c)
            # a related class may define its own `name` only when it overrides the delegating method in the same way (the pair
            # is overridden together, so inlining both leaves every dispatch where it was)
            return not any(d is not c and id(d) in rel and (id(d), via, name) not in pairs for d in ds)

        def strip_doc(body):
            if body and isinstance(body[0], ast.Expr) and isinstance(body[0].value, ast.Constant) and isinstance(body[0].value.value, str):
                return body[:1], body[1:]
            return [], body

        def plain(fn) -> bool:
            a = fn.args
            return not (fn.decorator_list or a.vararg or a.kwarg or a.kwonlyargs or a.posonlyargs) and bool(a.args) and a.args[0].arg == "self"

        def delegate_of(fn):
            """(with-statement or None, call, value returned?) when the body of fn is one `self.<x>(...)` call, else None"""
            _, body = strip_doc(fn.body)
            if len(body) != 1:
                return None
            st, wrap = body[0], None
            if isinstance(st, ast.With) and len(st.body) == 1:
                wrap, st = st, st.body[0]
            if isinstance(st, ast.Return) and isinstance(st.value, ast.Call):
                call, is_ret = st.value, True
            elif isinstance(st, ast.Expr) and isinstance(st.value, ast.Call):
                call, is_ret = st.value, False
            else:
                return None
            f = call.func
            if not (isinstance(f, ast.Attribute) and isinstance(f.value, ast.Name) and f.value.id == "self"):
                return None
            return wrap, call, is_ret

        pairs = set()
        for c in classes:
            for st in c.body:
                if isinstance(st, ast.FunctionDef) and plain(st):
                    d_ = delegate_of(st)
                    if d_ is not None:
                        pairs.add((id(c), st.name, d_[1].func.attr))

        for m in mods:
            for cls in [c for c in classes if any(c is n for n in ast.walk(m.tree))]:
                again = True
                while again:
                    again = False
                    methods = {st.name: st for st in cls.body if isinstance(st, ast.FunctionDef)}
                    for fn in list(methods.values()):
                        if not plain(fn):
                            continue
                        doc, _ = strip_doc(fn.body)
                        d_ = delegate_of(fn)
                        if d_ is None:
                            continue
                        wrap, call, is_ret = d_
                        f = call.func
                        x = methods.get(f.attr)
                        if x is None or x is fn or not f.attr.startswith("_") or f.attr.startswith("__") or not plain(x) or not exclusive(cls, f.attr, fn.name):
                            continue
                        mine = [a.arg for a in fn.args.args[1:]]
                        theirs = [a.arg for a in x.args.args[1:]]
                        if call.keywords or len(call.args) != len(theirs) or len(mine) != len(theirs) or \
                                [a.id if isinstance(a, ast.Name) else None for a in call.args] != mine:
                            continue
                        if any(isinstance(n, (ast.Yield, ast.YieldFrom, ast.Global, ast.Nonlocal)) for n in ast.walk(x)):
                            continue
                        if wrap is not None and any(isinstance(i.optional_vars, ast.AST) for i in wrap.items):
                            continue
                        if not is_ret and any(isinstance(n, ast.Return) and n.value is not None and
                                              not (isinstance(n.value, ast.Constant) and n.value.value is None) for n in ast.walk(x)):
                            continue
                        ren = {b: a for a, b in zip(mine, theirs) if a != b}
                        if ren:
                            names = {n.id for n in ast.walk(x) if isinstance(n, ast.Name)} | {a.arg for n in ast.walk(x) if isinstance(n, ast.arguments) and n is not x.args for a in n.args}
                            if any(a in names for a in ren.values()):
                                continue
                            for n in ast.walk(x):
                                if isinstance(n, ast.Name) and n.id in ren:
                                    n.id = ren[n.id]
                        _, xbody = strip_doc(x.body)
                        if not xbody:
                            continue
                        if wrap is not None:
                            wrap.body = xbody
                            fn.body = doc + [wrap]
                        else:
                            fn.body = doc + xbody
                        fn.end_lineno = max(getattr(fn, "end_lineno", 0) or 0, getattr(x, "end_lineno", 0) or 0)
                        cls.body.remove(x)
                        again = True
                        break

    def _normalise_aliases(self) -> None:
        """Third canonicalising pass: copy propagation of aliases of FINAL attributes.

        `x = self.a` where `a` is never stored anywhere in the sources outside an `__init__` (so `self.a` denotes the same
        object for the whole life of the instance), x is bound exactly once in the function, is no parameter / global /
        nonlocal and is not referenced from a nested scope: every load of x is analysed as `self.a` and the binding becomes
        `pass`.  `buf = self._cbf_buffer; buf[k] = v` and `self._cbf_buffer[k] = v` then look the same to every rule
        (locksets, write effects, provenance)."""
        stored_outside_init = set()
        for m in list(self.modules.values()):
            for fn in ast.walk(m.tree):
                if not isinstance(fn, (ast.FunctionDef, ast.AsyncFunctionDef)):
                    continue
                for n in ast.walk(fn):
                    if isinstance(n, ast.Attribute) and isinstance(n.ctx, (ast.Store, ast.Del)):
                        if fn.name not in ("__init__", "__post_init__") or not (isinstance(n.value, ast.Name) and n.value.id == "self"):
                            stored_outside_init.add(n.attr)
            # class-level / dataclass fields can be re-bound through the instance as well: covered by the scan above
        n_inlined = 0
        for m in list(self.modules.values()):
            for fn in [x for x in ast.walk(m.tree) if isinstance(x, (ast.FunctionDef, ast.AsyncFunctionDef))]:
                params = {a.arg for a in fn.args.posonlyargs + fn.args.args + fn.args.kwonlyargs}
                if fn.args.vararg:
                    params.add(fn.args.vararg.arg)
                if fn.args.kwarg:
                    params.add(fn.args.kwarg.arg)
                if "self" not in params:
                    continue
                shared, stores = set(), {}
                for n in ast.walk(fn):
                    if isinstance(n, (ast.Global, ast.Nonlocal)):
                        shared.update(n.names)
                    elif n is not fn and isinstance(n, (ast.FunctionDef, ast.AsyncFunctionDef, ast.Lambda, ast.ClassDef, ast.GeneratorExp,
                                                         ast.ListComp, ast.SetComp, ast.DictComp)):
                        for x in ast.walk(n):
                            if isinstance(x, ast.Name):
                                shared.add(x.id)
                    if isinstance(n, ast.Name) and isinstance(n.ctx, (ast.Store, ast.Del)):
                        stores[n.id] = stores.get(n.id, 0) + 1
                    if isinstance(n, ast.ExceptHandler) and n.name:
                        stores[n.name] = stores.get(n.name, 0) + 1
                cands = {}
                for blk in ast.walk(fn):
                    for fld in ("body", "orelse", "finalbody"):
                        lst = getattr(blk, fld, None)
                        if not (isinstance(lst, list) and lst and isinstance(lst[0], ast.stmt)):
                            continue
                        for i, st in enumerate(lst):
                            if isinstance(st, ast.Assign) and len(st.targets) == 1 and isinstance(st.targets[0], ast.Name) \
                                    and isinstance(st.value, ast.Attribute) and isinstance(st.value.value, ast.Name) and st.value.value.id == "self":
                                x, a = st.targets[0].id, st.value.attr
                                if x in params or x in shared or stores.get(x, 0) != 1 or a in stored_outside_init:
                                    continue
                                cands[x] = (lst, i, st)
                if not cands:
                    continue

                class R(ast.NodeTransformer):
                    def visit_Name(self, n):
                        if isinstance(n.ctx, ast.Load) and n.id in cands:
                            return ast.copy_location(copy.deepcopy(cands[n.id][2].value), n)
                        return n
                for x, (lst, i, st) in cands.items():
                    lst[i] = ast.copy_location(ast.Pass(), st)
                    n_inlined += 1
                for k, b in enumerate(fn.body):
                    fn.body[k] = R().visit(b)
                ast.fix_missing_locations(fn)
        self.aliases_inlined = n_inlined

    def _inline_constants(self) -> None:
        """Last canonicalising pass: a numeric module-level constant (bound once in its module, never declared global
        anywhere in it) that is read inside a function body - by its name, by an imported name or as `module.NAME` - is
        analysed as its value, so `frame[ETH_HEADER_LEN:]` and `frame[14:]`, `>= vam_constants.T_GENVAMMIN` and `>= 100` are
        one spelling for every rule.  Module-level bindings stay, so rules that check a constant's VALUE against a
        specification table still find it by name.  (FLEXLINT_KEEP_CONST_NAMES=1 switches the pass off for debugging.)"""
        n = 0
        for m in list(self.modules.values()):
            if m.is_data:
                continue
            bound_once = {}
            for st in m.tree.body:
                for t in (st.targets if isinstance(st, ast.Assign) else [st.target] if isinstance(st, ast.AnnAssign) else []):
                    if isinstance(t, ast.Name):
                        bound_once[t.id] = bound_once.get(t.id, 0) + 1
            rebound = {nm for g in ast.walk(m.tree) if isinstance(g, ast.Global) for nm in g.names}
            m._const_ok = {k for k, c in bound_once.items() if c == 1 and k not in rebound}
        prog = self

        for m in list(self.modules.values()):
            if m.is_data:
                continue
            for fn in [f for f in ast.walk(m.tree) if isinstance(f, (ast.FunctionDef, ast.AsyncFunctionDef))]:
                local = {a.arg for a in fn.args.posonlyargs + fn.args.args + fn.args.kwonlyargs}
                if fn.args.vararg:
                    local.add(fn.args.vararg.arg)
                if fn.args.kwarg:
                    local.add(fn.args.kwarg.arg)
                local |= {x.id for x in ast.walk(fn) if isinstance(x, ast.Name) and isinstance(x.ctx, (ast.Store, ast.Del))}

                class R(ast.NodeTransformer):
                    def _const(self, node):
                        if isinstance(node, ast.Name):
                            if node.id in local:
                                return None
                            r = prog.resolve_name(m, node.id)
                        else:
                            root = node
                            while isinstance(root, ast.Attribute):
                                root = root.value
                            if not isinstance(root, ast.Name) or root.id in local:
                                return None
                            r = prog.resolve_expr_entity(m, node)
                        if not (isinstance(r, tuple) and r[0] == "const"):
                            return None
                        owner = r[1]
                        nm = node.id if isinstance(node, ast.Name) else node.attr
                        src_name = nm
                        if nm not in getattr(owner, "_const_ok", ()):        # imported under another name: look the value's name up
                            cands = [k for k, v in owner.consts.items() if v is r[2]]
                            if not cands or cands[0] not in getattr(owner, "_const_ok", ()):
                                return None
                        v = prog.try_fold(owner, r[2])
                        if isinstance(v, bool) or not isinstance(v, (int, float)):
                            return None
                        return v

                    def visit_Name(self, node):
                        if isinstance(node.ctx, ast.Load):
                            v = self._const(node)
                            if v is not None:
                                nonlocal n
                                n += 1
                                return ast.copy_location(ast.Constant(value=v), node)
                        return node

                    def visit_Attribute(self, node):
                        if isinstance(node.ctx, ast.Load):
                            v = self._const(node)
                            if v is not None:
                                nonlocal n
                                n += 1
                                return ast.copy_location(ast.Constant(value=v), node)
                        return self.generic_visit(node)

                    def visit_FunctionDef(self, node):
                        return node if node is not fn else self.generic_visit(node)
                    visit_AsyncFunctionDef = visit_FunctionDef
                fn.body = [R().visit(b) for b in fn.body]
        self.constants_inlined = n
        for attr in list(vars(self)):
            if attr.endswith("_cache") and isinstance(getattr(self, attr), dict):
                getattr(self, attr).clear()

    def _normalise_calls(self) -> None:
        """Second canonicalising pass (after indexing, before any flow is built): a call that passes arguments to a
        repository FUNCTION or METHOD by keyword is rewritten to the positional form when that is unambiguous - every in-src
        target agrees on the parameter order and the keywords fill a gap-free prefix of the parameters.  `f(x, b=y)` and
        `f(x, y)` then look the same to every rule.  Constructor calls (dataclasses) keep their keywords."""
        n_rewritten = 0
        for fi in list(self.funcs.values()):
            try:
                calls = self.calls_in(fi)
            except Exception:  # pragma: no cover
                continue
            for c in calls:
                if not c.keywords or any(k.arg is None for k in c.keywords) or any(isinstance(a, ast.Starred) for a in c.args):
                    continue
                try:
                    tg = self.call_targets(fi, c, count=False)
                except Exception:
                    continue
                if not tg or not all(isinstance(t, FuncInfo) for t in tg):
                    continue
                orders = set()
                for t in tg:
                    a = t.node.args
                    if a.vararg or a.kwarg or a.kwonlyargs:
                        orders.add(None)
                        continue
                    params = list(t.params)
                    bound = t.kind in ("method", "classmethod", "property") and isinstance(c.func, ast.Attribute)
                    if t.kind in ("method", "classmethod") and isinstance(c.func, ast.Name):
                        bound = False          # plain-name call of a method object: leave alone
                        orders.add(None)
                        continue
                    orders.add(tuple(params[1:] if bound else params))
                if len(orders) != 1 or None in orders:
                    continue
                params = list(next(iter(orders)))
                kw = {k.arg: k.value for k in c.keywords}
                need = params[len(c.args):len(c.args) + len(kw)]
                if len(need) != len(kw) or set(need) != set(kw):
                    continue            # unknown keyword or a gap that relies on a default
                c.args = list(c.args) + [kw[p_] for p_ in need]
                c.keywords = []
                n_rewritten += 1
        self.calls_normalised = n_rewritten
        # type / resolution caches filled while resolving calls above were computed before every module-level fact was final
        # for the callers' callers: drop them, they are rebuilt on demand
        for k in [k for k in self.__dict__ if k.endswith("_cache")]:
            del self.__dict__[k]

    def _index_module(self, m: ModuleInfo) -> None:
        pkg = m.name.rsplit(".", 1)[0] if "." in m.name else ""
        is_pkg = m.path.endswith("__init__.py")
        for node in ast.walk(m.tree):
            if isinstance(node, ast.ImportFrom):
                if node.level:
                    base = m.name if is_pkg else pkg
                    parts = base.split(".")
                    if node.level > 1:
                        parts = parts[: -(node.level - 1)]
                    base = ".".join(parts)
                    mod = base + ("." + node.module if node.module else "")
                else:
                    mod = node.module or ""
                for a in node.names:
                    m.imports[a.asname or a.name] = ("attr", mod, a.name)
            elif isinstance(node, ast.Import):
                for a in node.names:
                    m.imports[a.asname or a.name.split(".")[0]] = ("mod", a.name if a.asname else a.name.split(".")[0])
        for st in m.tree.body:
            if isinstance(st, ast.Assign) and len(st.targets) == 1 and isinstance(st.targets[0], ast.Name):
                m.consts[st.targets[0].id] = st.value
            elif isinstance(st, ast.AnnAssign) and isinstance(st.target, ast.Name) and st.value is not None:
                m.consts[st.target.id] = st.value
            elif isinstance(st, ast.ClassDef):
                self._index_class(m, st)
            elif isinstance(st, (ast.FunctionDef, ast.AsyncFunctionDef)):
                fi = FuncInfo(st.name, f"{m.name}.{st.name}", m, st, None, "function")
                m.funcs[st.name] = fi
                self._register_func(fi)
        if len(m.src) > self.DATA_SIZE and not m.classes and not m.funcs:
            m.is_data = True

    def _register_func(self, fi: FuncInfo) -> None:
        self.funcs[fi.qual] = fi
        self.func_of_node[id(fi.node)] = fi
        # nested functions (rare)
        for sub in ast.walk(fi.node):
            if sub is not fi.node and isinstance(sub, (ast.FunctionDef, ast.AsyncFunctionDef)):
                if id(sub) not in self.func_of_node:
                    nf = FuncInfo(sub.name, f"{fi.qual}.<locals>.{sub.name}", fi.module, sub, fi.cls, "function", fi)
                    self.funcs[nf.qual] = nf
                    self.func_of_node[id(sub)] = nf

    def _index_class(self, m: ModuleInfo, node: ast.ClassDef) -> None:
        ci = ClassInfo(node.name, f"{m.name}.{node.name}", m, node)
        ci.base_exprs = list(node.bases)
        for d in node.decorator_list:
            dn = dotted(d.func) if isinstance(d, ast.Call) else dotted(d)
            if dn and dn.split(".")[-1] == "dataclass":
                ci.dataclass = True
                if isinstance(d, ast.Call):
                    for kw in d.keywords:
                        if kw.arg == "frozen" and isinstance(kw.value, ast.Constant):
                            ci.frozen = bool(kw.value.value)
        for st in node.body:
            if isinstance(st, (ast.FunctionDef, ast.AsyncFunctionDef)):
                kind = "method"
                for d in st.decorator_list:
                    dn = dotted(d) or ""
                    if dn in ("classmethod", "staticmethod", "property"):
                        kind = dn
                    elif dn.endswith(".setter"):
                        kind = "setter"
                fi = FuncInfo(st.name, f"{ci.qual}.{st.name}", m, st, ci, kind)
                if kind == "setter":
                    fi.qual += ".setter"
                    ci.methods.setdefault(st.name + ".setter", fi)
                else:
                    ci.methods[st.name] = fi
                self._register_func(fi)
            elif isinstance(st, ast.AnnAssign) and isinstance(st.target, ast.Name):
                ci.fields[st.target.id] = (st.annotation, st.value)
            elif isinstance(st, ast.Assign) and len(st.targets) == 1 and isinstance(st.targets[0], ast.Name):
                ci.fields.setdefault(st.targets[0].id, (None, st.value))
        m.classes[node.name] = ci
        self.classes[ci.qual] = ci

    # ---------------------------------------------------------------- linking
    def _link(self) -> None:
        for ci in self.classes.values():
            for b in ci.base_exprs:
                r = self.resolve_expr_entity(ci.module, b)
                if isinstance(r, ClassInfo):
                    ci.bases.append(r)
                    r.subclasses.append(ci)
                else:
                    ci.bases.append(self._external_name(ci.module, b))
        for ci in self.classes.values():
            ext = ci.external_bases()
            if any(e.split(".")[-1] in ("Enum", "IntEnum", "Flag", "IntFlag") for e in ext):
                ci.is_enum = True
                for name, (ann, val) in ci.fields.items():
                    if val is not None and not name.startswith("_"):
                        try:
                            ci.enum_members[name] = self.fold(ci.module, val)
                        except Exception:
                            ci.enum_members[name] = val

    def _external_name(self, m: ModuleInfo, node: ast.AST) -> str:
        d = dotted(node) or unparse(node)
        head = d.split(".")[0]
        imp = m.imports.get(head)
        if imp:
            if imp[0] == "attr":
                return imp[1] + "." + imp[2] + d[len(head):]
            return imp[1] + d[len(head):]
        return d

    def resolve_name(self, m: ModuleInfo, name: str, _depth: int = 0):
        """Resolve a module-level name to ClassInfo / FuncInfo / ModuleInfo / ('const', module, node) / None."""
        if _depth > 8:
            return None
        if name in m.classes:
            return m.classes[name]
        if name in m.funcs:
            return m.funcs[name]
        if name in m.consts:
            return ("const", m, m.consts[name])
        imp = m.imports.get(name)
        if imp:
            if imp[0] == "mod":
                return self.modules.get(imp[1])
            mod = self.modules.get(imp[1])
            if mod is not None:
                r = self.resolve_name(mod, imp[2], _depth + 1)
                if r is not None:
                    return r
            sub = self.modules.get(imp[1] + "." + imp[2])
            if sub is not None:
                return sub
        return None

    def resolve_expr_entity(self, m: ModuleInfo, node: ast.AST):
        """Resolve Name / dotted Attribute to a program entity (class, function, module, const)."""
        if isinstance(node, ast.Name):
            return self.resolve_name(m, node.id)
        if isinstance(node, ast.Attribute):
            base = self.resolve_expr_entity(m, node.value)
            if isinstance(base, ModuleInfo):
                return self.resolve_name(base, node.attr)
            if isinstance(base, ClassInfo):
                if node.attr in base.methods:
                    return base.methods[node.attr]
                if base.is_enum and node.attr in base.enum_members:
                    return ("enum", base, node.attr)
                for c in base.mro():
                    if node.attr in c.fields:
                        return ("classattr", c, node.attr)
        if isinstance(node, ast.Constant) and isinstance(node.value, str):
            try:
                return self.resolve_expr_entity(m, ast.parse(node.value, mode="eval").body)
            except SyntaxError:
                return None
        return None

    def cls(self, qual_or_name: str) -> ClassInfo:
        if qual_or_name in self.classes:
            return self.classes[qual_or_name]
        c = [v for k, v in self.classes.items() if k.endswith("." + qual_or_name)]
        if len(c) == 1:
            return c[0]
        raise AnalysisError(f"anchor class {qual_or_name!r} not found ({len(c)} candidates)")

    def func(self, qual_suffix: str) -> FuncInfo:
        if qual_suffix in self.funcs:
            return self.funcs[qual_suffix]
        c = [v for k, v in self.funcs.items() if k.endswith("." + qual_suffix)]
        if len(c) == 1:
            return c[0]
        raise AnalysisError(f"anchor function {qual_suffix!r} not found ({len(c)} candidates)")

    def has_func(self, qual_suffix: str) -> bool:
        try:
            self.func(qual_suffix)
            return True
        except AnalysisError:
            return False

    def module(self, suffix: str) -> ModuleInfo:
        if suffix in self.modules:
            return self.modules[suffix]
        c = [v for k, v in self.modules.items() if k.endswith("." + suffix)]
        if len(c) == 1:
            return c[0]
        raise AnalysisError(f"anchor module {suffix!r} not found")

    # ---------------------------------------------------------------- constant folding
    def fold(self, m: ModuleInfo, node: ast.AST, env: dict = None):
        """Fold an expression to a Python constant (int/float/str/bytes/bool/None/tuple). Raises ValueError."""
        if isinstance(node, ast.Constant):
            return node.value
        if isinstance(node, ast.Name):
            if env and node.id in env:
                return env[node.id]
            r = self.resolve_name(m, node.id)
            if isinstance(r, tuple) and r[0] == "const":
                key = (r[1].name, node.id)
                if key in self._fold_stack:
                    raise ValueError("cyclic constant")
                self._fold_stack.add(key)
                try:
                    return self.fold(r[1], r[2])
                finally:
                    self._fold_stack.discard(key)
            raise ValueError(f"not a constant: {node.id}")
        if isinstance(node, ast.Attribute):
            r = self.resolve_expr_entity(m, node)
            if isinstance(r, tuple):
                if r[0] == "const":
                    return self.fold(r[1], r[2])
                if r[0] == "classattr":
                    return self.fold(r[1].module, r[1].fields[r[2]][1])
                if r[0] == "enum":
                    return ("enum", r[1].qual, r[2])
            # Enum.X.value
            if node.attr == "value":
                r = self.resolve_expr_entity(m, node.value)
                if isinstance(r, tuple) and r[0] == "enum":
                    return r[1].enum_members[r[2]]
            d = dotted(node)
            if d == "math.pi":
                import math
                return math.pi
            raise ValueError(f"not a constant: {unparse(node)}")
        if isinstance(node, ast.UnaryOp):
            v = self.fold(m, node.operand, env)
            if isinstance(node.op, ast.USub):
                return -v
            if isinstance(node.op, ast.UAdd):
                return +v
            if isinstance(node.op, ast.Not):
                return not v
            if isinstance(node.op, ast.Invert):
                return ~v
        if isinstance(node, ast.BinOp):
            a = self.fold(m, node.left, env)
            b = self.fold(m, node.right, env)
            op = node.op
            try:
                if isinstance(op, ast.Add):
                    return a + b
                if isinstance(op, ast.Sub):
                    return a - b
                if isinstance(op, ast.Mult):
                    return a * b
                if isinstance(op, ast.Div):
                    return a / b
                if isinstance(op, ast.FloorDiv):
                    return a // b
                if isinstance(op, ast.Mod):
                    return a % b
                if isinstance(op, ast.Pow):
                    return a ** b
                if isinstance(op, ast.LShift):
                    return a << b
                if isinstance(op, ast.RShift):
                    return a >> b
                if isinstance(op, ast.BitOr):
                    return a | b
                if isinstance(op, ast.BitAnd):
                    return a & b
                if isinstance(op, ast.BitXor):
                    return a ^ b
            except Exception as e:
                raise ValueError(str(e))
        if isinstance(node, ast.Tuple):
            return tuple(self.fold(m, e, env) for e in node.elts)
        if isinstance(node, ast.Call):
            fn = dotted(node.func)
            if fn in ("int", "float") and len(node.args) == 1:
                v = self.fold(m, node.args[0], env)
                return int(v) if fn == "int" else float(v)
        if isinstance(node, ast.JoinedStr):
            out = ""
            for v in node.values:
                if isinstance(v, ast.Constant):
                    out += str(v.value)
                else:
                    raise ValueError("f-string with expression")
            return out
        raise ValueError(f"cannot fold {type(node).__name__}: {unparse(node)[:60]}")

    def try_fold(self, m: ModuleInfo, node: ast.AST, env: dict = None, default=None):
        try:
            return self.fold(m, node, env)
        except (ValueError, KeyError, TypeError, RecursionError):
            return default

    # ---------------------------------------------------------------- types
    def ann_types(self, m: ModuleInfo, ann: ast.AST) -> set:
        """Annotation -> set of class quals / builtin tags; containers give ('list', T) style tuples."""
        out: set = set()
        if ann is None:
            return out
        if isinstance(ann, ast.Constant):
            if ann.value is None:
                return {"None"}
            if isinstance(ann.value, str):
                try:
                    return self.ann_types(m, ast.parse(ann.value, mode="eval").body)
                except SyntaxError:
                    return out
        if isinstance(ann, ast.BinOp) and isinstance(ann.op, ast.BitOr):
            return self.ann_types(m, ann.left) | self.ann_types(m, ann.right)
        if isinstance(ann, ast.Subscript):
            head = dotted(ann.value) or ""
            h = head.split(".")[-1]
            sl = ann.slice
            if h in ("Optional",):
                return self.ann_types(m, sl) | {"None"}
            if h in ("Union",):
                elts = sl.elts if isinstance(sl, ast.Tuple) else [sl]
                for e in elts:
                    out |= self.ann_types(m, e)
                return out
            if h in ("list", "List", "Sequence", "Iterable", "set", "Set", "deque", "tuple", "Tuple", "frozenset"):
                elts = sl.elts if isinstance(sl, ast.Tuple) else [sl]
                inner = frozenset().union(*[frozenset(self.ann_types(m, e)) for e in elts]) if elts else frozenset()
                return {("seq", inner)}
            if h in ("dict", "Dict", "Mapping"):
                elts = sl.elts if isinstance(sl, ast.Tuple) else [sl]
                if len(elts) == 2:
                    return {("map", frozenset(self.ann_types(m, elts[1])))}
                return {("map", frozenset())}
            if h in ("Callable", "type", "Type"):
                return {"callable"}
            return out
        r = self.resolve_expr_entity(m, ann)
        if isinstance(r, ClassInfo):
            return {r.qual}
        d = dotted(ann)
        if d:
            return {"ext:" + self._external_name(m, ann)} if d.split(".")[0] in m.imports else {"builtin:" + d}
        return out

    def _infer_attr_types(self) -> None:
        for ci in self.classes.values():
            for name, (ann, val) in ci.fields.items():
                if ann is not None:
                    ci.attr_types.setdefault(name, set()).update(self.ann_types(ci.module, ann))
        # two rounds so that self.x = self.y.z() style assignments can use earlier results
        for _ in range(2):
            for ci in self.classes.values():
                for fi in ci.methods.values():
                    if fi.kind in ("staticmethod",):
                        continue
                    ptypes = self.param_types(fi)
                    for node in ast.walk(fi.node):
                        tgt = val = ann = None
                        if isinstance(node, ast.Assign) and len(node.targets) == 1:
                            tgt, val = node.targets[0], node.value
                        elif isinstance(node, ast.AnnAssign):
                            tgt, val, ann = node.target, node.value, node.annotation
                        if tgt is None or not (isinstance(tgt, ast.Attribute) and isinstance(tgt.value, ast.Name)
                                               and tgt.value.id == "self"):
                            continue
                        ts = set()
                        if ann is not None:
                            ts |= self.ann_types(fi.module, ann)
                        elif val is not None:
                            ts |= self.expr_types(fi, val, ptypes)
                        if ts:
                            ci.attr_types.setdefault(tgt.attr, set()).update(ts)

    def param_types(self, fi: FuncInfo) -> dict:
        out = {}
        a = fi.node.args
        allargs = a.posonlyargs + a.args + a.kwonlyargs
        for i, arg in enumerate(allargs):
            if arg.annotation is not None:
                out[arg.arg] = self.ann_types(fi.module, arg.annotation)
        if fi.cls is not None and allargs and fi.kind in ("method", "property", "setter"):
            out[allargs[0].arg] = {fi.cls.qual}
        if fi.cls is not None and allargs and fi.kind == "classmethod":
            out[allargs[0].arg] = {"type:" + fi.cls.qual}
        return out

    def attr_type(self, cls_qual: str, attr: str) -> set:
        ci = self.classes.get(cls_qual)
        if ci is None:
            return set()
        out = set()
        for c in ci.mro():
            if attr in c.attr_types:
                out |= c.attr_types[attr]
            pm = c.methods.get(attr)
            if pm is not None and pm.kind == "property" and pm.node.returns is not None:
                out |= self.ann_types(pm.module, pm.node.returns)
        return out

    def local_types(self, fi: FuncInfo) -> dict:
        """Flow-insensitive local variable types for a function (cached)."""
        cache = self.__dict__.setdefault("_lt_cache", {})
        if fi.qual in cache:
            return cache[fi.qual]
        env = dict(self.param_types(fi))
        if fi.parent is not None:
            for k, v in self.local_types(fi.parent).items():
                env.setdefault(k, v)
        cache[fi.qual] = env
        for _ in range(3):
            changed = False
            for node in ast.walk(fi.node):
                pairs = []
                if isinstance(node, ast.Assign):
                    for t in node.targets:
                        pairs.append((t, node.value, None))
                elif isinstance(node, ast.AnnAssign):
                    pairs.append((node.target, node.value, node.annotation))
                elif isinstance(node, (ast.For, ast.comprehension)):
                    it_t = self.expr_types(fi, node.iter, env)
                    elem = set()
                    for t in it_t:
                        if isinstance(t, tuple) and t[0] in ("seq",):
                            elem |= set(t[1])
                    if isinstance(node.target, ast.Name) and elem:
                        if not elem <= env.get(node.target.id, set()):
                            env.setdefault(node.target.id, set()).update(elem)
                            changed = True
                    # dict.items(): for k, v in self.d.items()
                    if isinstance(node.target, ast.Tuple) and isinstance(node.iter, ast.Call) and \
                            isinstance(node.iter.func, ast.Attribute) and node.iter.func.attr in ("items", "values"):
                        mt = self.expr_types(fi, node.iter.func.value, env)
                        vals = set()
                        for t in mt:
                            if isinstance(t, tuple) and t[0] == "map":
                                vals |= set(t[1])
                        if vals and len(node.target.elts) == 2 and isinstance(node.target.elts[1], ast.Name):
                            nm = node.target.elts[1].id
                            if not vals <= env.get(nm, set()):
                                env.setdefault(nm, set()).update(vals)
                                changed = True
                    continue
                elif isinstance(node, ast.With):
                    for it in node.items:
                        if it.optional_vars is not None:
                            pairs.append((it.optional_vars, it.context_expr, None))
                elif isinstance(node, ast.NamedExpr):
                    pairs.append((node.target, node.value, None))
                for tgt, val, ann in pairs:
                    if not isinstance(tgt, ast.Name):
                        continue
                    ts = set()
                    if ann is not None:
                        ts |= self.ann_types(fi.module, ann)
                    if val is not None and not ts:
                        ts |= self.expr_types(fi, val, env)
                    if ts and not ts <= env.get(tgt.id, set()):
                        env.setdefault(tgt.id, set()).update(ts)
                        changed = True
            if not changed:
                break
        return env

    def expr_types(self, fi: FuncInfo, node: ast.AST, env: dict = None) -> set:
        """Possible types of an expression: class quals, 'type:<qual>' for class objects, tags."""
        if env is None:
            env = self.local_types(fi)
        m = fi.module
        if isinstance(node, ast.Name):
            if node.id in env:
                return set(env[node.id])
            r = self.resolve_name(m, node.id)
            if isinstance(r, ClassInfo):
                return {"type:" + r.qual}
            if isinstance(r, FuncInfo):
                return {"func:" + r.qual}
            if isinstance(r, ModuleInfo):
                return {"module:" + r.name}
            if isinstance(r, tuple) and r[0] == "const":
                v = r[2]
                if isinstance(v, ast.Call):
                    e = self.resolve_expr_entity(r[1], v.func)
                    if isinstance(e, ClassInfo):
                        return {e.qual}
                    if isinstance(e, FuncInfo) and e.node.returns is not None:
                        return self.ann_types(e.module, e.node.returns)
                    return {"extcall:" + self._external_name(r[1], v.func)}
                if isinstance(v, ast.Dict):
                    return {("map", frozenset())}
                if isinstance(v, (ast.List, ast.Tuple, ast.Set)):
                    return {("seq", frozenset())}
                if isinstance(v, ast.Constant):
                    return {"builtin:" + type(v.value).__name__}
            if node.id in m.imports:
                return {"ext:" + self._external_name(m, node)}
            return set()
        if isinstance(node, ast.Constant):
            return {"builtin:" + type(node.value).__name__}
        if isinstance(node, ast.Attribute):
            base = self.expr_types(fi, node.value, env)
            out = set()
            for t in base:
                if isinstance(t, str) and t in self.classes:
                    out |= self.attr_type(t, node.attr)
                    ci = self.classes[t]
                    mth = ci.find_method(node.attr)
                    if mth is not None and mth.kind != "property":
                        out.add("func:" + mth.qual)
                elif isinstance(t, str) and t.startswith("type:"):
                    ci = self.classes.get(t[5:])
                    if ci is not None:
                        if ci.is_enum and node.attr in ci.enum_members:
                            out.add(ci.qual)
                        mth = ci.find_method(node.attr)
                        if mth is not None:
                            out.add("func:" + mth.qual)
                        for c in ci.mro():
                            if node.attr in c.fields and c.fields[node.attr][0] is not None and not ci.is_enum:
                                out |= self.ann_types(c.module, c.fields[node.attr][0])
                elif isinstance(t, str) and t.startswith("module:"):
                    mod = self.modules.get(t[7:])
                    if mod is not None:
                        r = self.resolve_name(mod, node.attr)
                        if isinstance(r, ClassInfo):
                            out.add("type:" + r.qual)
                        elif isinstance(r, FuncInfo):
                            out.add("func:" + r.qual)
                elif isinstance(t, str) and t.startswith("ext:"):
                    out.add(t + "." + node.attr)
            return out
        if isinstance(node, ast.Call):
            out = set()
            for tgt in self.call_targets(fi, node, env, count=False):
                if isinstance(tgt, ClassInfo):
                    out.add(tgt.qual)
                elif isinstance(tgt, FuncInfo):
                    if tgt.kind == "classmethod" and tgt.node.returns is not None:
                        rt = self.ann_types(tgt.module, tgt.node.returns)
                        out |= rt
                    elif tgt.node.returns is not None:
                        out |= self.ann_types(tgt.module, tgt.node.returns)
            f = node.func
            if isinstance(f, ast.Name) and f.id in ("cast",) and len(node.args) == 2:
                out |= self.ann_types(m, node.args[0])
            if isinstance(f, ast.Name) and f.id in ("list", "tuple", "sorted", "set") and node.args:
                out |= {t for t in self.expr_types(fi, node.args[0], env) if isinstance(t, tuple)}
            if isinstance(f, ast.Attribute) and f.attr in ("get", "pop", "setdefault"):
                for t in self.expr_types(fi, f.value, env):
                    if isinstance(t, tuple) and t[0] == "map":
                        out |= set(t[1])
            if isinstance(f, ast.Attribute) and f.attr in ("values", "copy"):
                for t in self.expr_types(fi, f.value, env):
                    if isinstance(t, tuple) and t[0] == "map":
                        out.add(("seq", t[1]) if f.attr == "values" else t)
            if not out:
                d = dotted(f)
                if d:
                    head = d.split(".")[0]
                    if head in m.imports and self.resolve_name(m, head) is None:
                        out.add("extcall:" + self._external_name(m, f))
            return out
        if isinstance(node, ast.Subscript):
            out = set()
            for t in self.expr_types(fi, node.value, env):
                if isinstance(t, tuple) and t[0] in ("map", "seq"):
                    out |= set(t[1])
            return out
        if isinstance(node, ast.IfExp):
            return self.expr_types(fi, node.body, env) | self.expr_types(fi, node.orelse, env)
        if isinstance(node, ast.BoolOp):
            out = set()
            for v in node.values:
                out |= self.expr_types(fi, v, env)
            return out
        if isinstance(node, ast.Await):
            return self.expr_types(fi, node.value, env)
        if isinstance(node, (ast.List, ast.Tuple, ast.Set)):
            inner = set()
            for e in node.elts:
                inner |= {t for t in self.expr_types(fi, e, env) if isinstance(t, str)}
            return {("seq", frozenset(inner))}
        if isinstance(node, ast.ListComp):
            return {("seq", frozenset())}
        if isinstance(node, ast.Dict):
            return {("map", frozenset())}
        return set()

    # ---------------------------------------------------------------- call resolution
    def call_targets(self, fi: FuncInfo, call: ast.Call, env: dict = None, count: bool = True, cha: bool = True) -> list:
        """Resolve a call to FuncInfo (function/method bodies), ClassInfo (constructor) or 'ext:...' strings."""
        if env is None:
            env = self.local_types(fi)
        f = call.func
        out: list = []
        ext = False
        if isinstance(f, ast.Name):
            r = self.resolve_name(fi.module, f.id)
            if f.id in env:   # local callable variable
                for t in env[f.id]:
                    if isinstance(t, str) and t.startswith("func:"):
                        out.append(self.funcs[t[5:]])
                    elif isinstance(t, str) and t.startswith("type:"):
                        out.append(self.classes[t[5:]])
            elif isinstance(r, (ClassInfo, FuncInfo)):
                out.append(r)
            elif f.id in fi.module.imports or f.id in dir(__builtins__) or (
                    isinstance(__builtins__, dict) and f.id in __builtins__):
                ext = True
            else:
                # nested function defined in the enclosing function
                for q, nf in self.funcs.items():
                    if nf.parent is not None and (nf.parent is fi or nf.parent is fi.parent) and nf.name == f.id:
                        out.append(nf)
        elif isinstance(f, ast.Attribute):
            if isinstance(f.value, ast.Call) and isinstance(f.value.func, ast.Name) and f.value.func.id == "super" \
                    and fi.cls is not None:
                for c in fi.cls.mro()[1:]:
                    if f.attr in c.methods:
                        out.append(c.methods[f.attr])
                        break
                else:
                    ext = True
            else:
                base = self.expr_types(fi, f.value, env)
                for t in base:
                    if isinstance(t, str) and t in self.classes:
                        ci = self.classes[t]
                        mth = ci.find_method(f.attr)
                        if mth is not None:
                            out.append(mth)
                        elif ci.external_bases():
                            ext = True
                        if cha:
                            for sc in ci.all_subclasses():
                                if f.attr in sc.methods:
                                    out.append(sc.methods[f.attr])
                        # attribute holding a callable / class instance with __call__
                        if mth is None:
                            for at in self.attr_type(t, f.attr):
                                if at == "callable":
                                    ext = True
                    elif isinstance(t, str) and t.startswith("type:"):
                        ci = self.classes.get(t[5:])
                        if ci is not None:
                            mth = ci.find_method(f.attr)
                            if mth is not None:
                                out.append(mth)
                            elif f.attr in ("__class__",):
                                pass
                            else:
                                ext = True
                    elif isinstance(t, str) and t.startswith("module:"):
                        mod = self.modules.get(t[7:])
                        r = self.resolve_name(mod, f.attr) if mod else None
                        if isinstance(r, (ClassInfo, FuncInfo)):
                            out.append(r)
                    elif isinstance(t, str) and (t.startswith("ext:") or t.startswith("builtin:")
                                                 or t.startswith("extcall:") or t == "callable" or t == "None"):
                        if t != "None":
                            ext = True
                    elif isinstance(t, tuple):
                        ext = True   # list/dict method
                if not base:
                    import builtins as _b
                    if isinstance(f.value, ast.Name) and hasattr(_b, f.value.id) and f.value.id not in env:
                        ext = True
                    elif f.attr in _BUILTIN_METHODS and not any(f.attr in c.methods for c in self.classes.values()):
                        ext = True
                    elif isinstance(f.value, ast.Constant):
                        ext = True
                    # x.__class__(...) idiom and known builtin-method names on untyped receivers
                    if isinstance(f.value, ast.Attribute) and f.value.attr == "__class__":
                        for t in self.expr_types(fi, f.value.value, env):
                            if isinstance(t, str) and t in self.classes:
                                out.append(self.classes[t])
        elif isinstance(f, ast.Call):
            ext = True
        # x.__class__(...) constructor
        if isinstance(f, ast.Attribute) and f.attr == "__class__":
            for t in self.expr_types(fi, f.value, env):
                if isinstance(t, str) and t in self.classes:
                    out.append(self.classes[t])
        # dedupe
        seen, res = set(), []
        for o in out:
            k = o.qual
            if k not in seen:
                seen.add(k)
                res.append(o)
        if count:
            self.stats["calls_total"] += 1
            if res:
                self.stats["calls_resolved"] += 1
            elif ext:
                self.stats["calls_external"] += 1
            else:
                self.stats["calls_unresolved"] += 1
        if not res and ext:
            return ["ext:" + (self._external_name(fi.module, f) if dotted(f) else unparse(f))]
        return res

    def ctor_init(self, ci: ClassInfo) -> Optional[FuncInfo]:
        return ci.find_method("__init__")

    # ---------------------------------------------------------------- iteration helpers
    def iter_funcs(self, include_examples: bool = False) -> Iterable[FuncInfo]:
        for q, f in self.funcs.items():
            if f.module.name.startswith("examples.") and not include_examples:
                continue
            yield f

    def calls_in(self, fi: FuncInfo) -> list:
        """All ast.Call nodes lexically inside fi (excluding nested function bodies)."""
        out = []

        def rec(n):
            for c in ast.iter_child_nodes(n):
                if isinstance(c, (ast.FunctionDef, ast.AsyncFunctionDef, ast.Lambda)) and c is not fi.node:
                    continue
                if isinstance(c, ast.Call):
                    out.append(c)
                rec(c)
        rec(fi.node)
        return out

    def callers_of(self, target: FuncInfo) -> list:
        """[(caller FuncInfo, call node)] over src (not examples)."""
        idx = self.__dict__.get("_callers")
        if idx is None:
            idx = {}
            for fi in self.iter_funcs():
                for c in self.calls_in(fi):
                    for t in self.call_targets(fi, c, count=False):
                        if isinstance(t, FuncInfo):
                            idx.setdefault(t.qual, []).append((fi, c))
                        elif isinstance(t, ClassInfo):
                            init = t.find_method("__init__")
                            if init is not None:
                                idx.setdefault(init.qual, []).append((fi, c))
            self.__dict__["_callers"] = idx
        return idx.get(target.qual, [])

    def resolution_stats(self) -> dict:
        st = {"calls_total": 0, "calls_resolved": 0, "calls_external": 0, "calls_unresolved": 0}
        save = self.stats
        self.stats = st
        unresolved = []
        for fi in self.iter_funcs():
            for c in self.calls_in(fi):
                r = self.call_targets(fi, c)
                if not r:
                    unresolved.append(f"{fi.module.rel}:{c.lineno} {unparse(c.func)[:50]}")
        self.stats = save
        st["unresolved_samples"] = unresolved[:15]
        return st
