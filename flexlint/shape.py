"""K9 schema conformance + K10 interval interpretation of message-builder expressions against an ASN.1 type tree."""
from __future__ import annotations

import ast
import math
import re
from typing import Optional

from .prog import AnalysisError, ClassInfo, FuncInfo, Program, dotted, unparse
from .asn1schema import Schema
from .match import pretty, int_lower_bound, int_upper_bound

INF = float("inf")


def norm(s):
    return re.sub(r"\s+", "", s)


class ShapeChecker:
    def __init__(self, ctx, schema: Schema, rule_schema: str, rule_range: str, inputs: dict):
        """inputs: normalised expression text -> (lo, hi) of the quantifier's input box."""
        self.ctx, self.P, self.S = ctx, ctx.prog, schema
        self.rs, self.rr = rule_schema, rule_range
        self.inputs = {norm(k): v for k, v in inputs.items()}
        self.n_values = 0
        self.n_opaque = 0
        self._inl = 0

    # ------------------------------------------------------------------ intervals
    def ival(self, e: ast.AST, fi: FuncInfo, fl, st, env: dict):
        """(lo, hi) of a numeric expression; (-inf, inf) when unknown."""
        P = self.P
        c = P.try_fold(fi.module, e, default="<nc>")
        if c != "<nc>" and isinstance(c, (int, float)) and not isinstance(c, bool):
            return (c, c)
        t = norm(pretty(unparse(e)))
        rng = None
        if t in self.inputs:
            rng = self.inputs[t]
        elif isinstance(e, ast.Name) and e.id in env:
            rng = self.ival(env[e.id][0], env[e.id][1], env[e.id][2], env[e.id][3], env[e.id][4])
        elif isinstance(e, ast.BinOp):
            a = self.ival(e.left, fi, fl, st, env)
            b = self.ival(e.right, fi, fl, st, env)
            rng = self._arith(e.op, a, b)
        elif isinstance(e, ast.UnaryOp) and isinstance(e.op, ast.USub):
            a = self.ival(e.operand, fi, fl, st, env)
            rng = (-a[1], -a[0])
        elif isinstance(e, ast.Call):
            fn = dotted(e.func) or ""
            args = [self.ival(a, fi, fl, st, env) for a in e.args]
            if fn in ("int", "round", "float", "trunc") and args:
                lo, hi = args[0]
                rng = (math.floor(lo) if lo not in (INF, -INF) and fn != "round" else (round(lo) if lo not in (INF, -INF) else lo),
                       math.ceil(hi) if hi not in (INF, -INF) and fn != "round" else (round(hi) if hi not in (INF, -INF) else hi))
                if fn == "int":   # truncation towards zero
                    rng = (math.trunc(lo) if lo not in (INF, -INF) else lo, math.trunc(hi) if hi not in (INF, -INF) else hi)
            elif fn == "min" and args:
                rng = (min(a[0] for a in args), min(a[1] for a in args))
            elif fn == "max" and args:
                rng = (max(a[0] for a in args), max(a[1] for a in args))
            elif fn == "abs" and args:
                lo, hi = args[0]
                rng = (0 if lo <= 0 <= hi else min(abs(lo), abs(hi)), max(abs(lo), abs(hi)))
            elif fn == "len":
                rng = (0, INF)
            elif fn.endswith("randint") and len(args) == 2:
                rng = (args[0][0], args[1][1])
        elif isinstance(e, ast.IfExp):
            a = self.ival(e.body, fi, fl, st, env)
            b = self.ival(e.orelse, fi, fl, st, env)
            rng = (min(a[0], b[0]), max(a[1], b[1]))
        elif isinstance(e, ast.BoolOp) and isinstance(e.op, ast.Or):
            rs = [self.ival(v, fi, fl, st, env) for v in e.values]
            rng = (min(r[0] for r in rs), max(r[1] for r in rs))
        if rng is None:
            rng = (-INF, INF)
        # refinement by guard facts on exactly this expression
        if st is not None:
            lb = int_lower_bound(P, fi.module, st.facts, unparse(e))
            ub = int_upper_bound(P, fi.module, st.facts, unparse(e))
            if lb is not None:
                rng = (max(rng[0], lb), rng[1])
            if ub is not None:
                rng = (rng[0], min(rng[1], ub))
        return rng

    @staticmethod
    def _arith(op, a, b):
        def mul(x, y):
            if (x in (INF, -INF) and y == 0) or (y in (INF, -INF) and x == 0):
                return 0
            return x * y
        if isinstance(op, ast.Add):
            return (a[0] + b[0], a[1] + b[1])
        if isinstance(op, ast.Sub):
            return (a[0] - b[1], a[1] - b[0])
        if isinstance(op, ast.Mult):
            c = [mul(x, y) for x in a for y in b]
            return (min(c), max(c))
        if isinstance(op, (ast.Div, ast.FloorDiv)):
            if b[0] <= 0 <= b[1]:
                return (-INF, INF)
            c = [x / y for x in a for y in b if y not in (INF, -INF)] or [-INF, INF]
            lo, hi = min(c), max(c)
            if isinstance(op, ast.FloorDiv):
                lo = math.floor(lo) if lo not in (INF, -INF) else lo
                hi = math.floor(hi) if hi not in (INF, -INF) else hi
            return (lo, hi)
        if isinstance(op, ast.Mod):
            if b[0] == b[1] and b[0] > 0:
                return (0, b[0] - 1)
        if isinstance(op, ast.Pow):
            if b[0] == b[1] and isinstance(b[0], int) and b[0] >= 0 and a[0] >= 0:
                return (a[0] ** b[0], a[1] ** b[0])
        return (-INF, INF)

    # ------------------------------------------------------------------ conformance
    def check(self, e: ast.AST, t: dict, fi: FuncInfo, fl, st, path: str, env: dict = None, complete: bool = False, depth: int = 0):
        """Check that Python expression `e` conforms to resolved ASN.1 node `t`. `env`: callee param -> (arg, fi, fl, st, env)."""
        env = env or {}
        if depth > 12:
            return
        ctx, S = self.ctx, self.S
        con = fi.short()
        loc = f"{fi.module.rel}:{getattr(e, 'lineno', fi.node.lineno)}"
        kind = t.get("type")
        tname = t.get("_name", kind)
        # look through wrappers that keep the shape
        if isinstance(e, ast.Call) and (dotted(e.func) or "") in ("dict", "deepcopy", "copy.deepcopy", "copy") and len(e.args) == 1:
            return self.check(e.args[0], t, fi, fl, st, path, env, complete, depth + 1)
        if isinstance(e, ast.Call) and isinstance(e.func, ast.Attribute) and e.func.attr == "copy" and not e.args:
            return self.check(e.func.value, t, fi, fl, st, path, env, complete, depth + 1)
        if isinstance(e, ast.Name) and e.id in env:
            a = env[e.id]
            return self.check(a[0], t, a[1], a[2], a[3], path, a[4], complete, depth + 1)
        if isinstance(e, ast.IfExp):
            self.check(e.body, t, fi, fl, st, path, env, complete, depth + 1)
            self.check(e.orelse, t, fi, fl, st, path, env, complete, depth + 1)
            return
        if isinstance(e, ast.Constant) and e.value is None:
            return
        self.n_values += 1
        if kind in ("SEQUENCE", "SET"):
            if isinstance(e, ast.Dict):
                members = {m["name"]: m for m in S.members(t)}
                present = set()
                for k, v in zip(e.keys, e.values):
                    if not (isinstance(k, ast.Constant) and isinstance(k.value, str)):
                        continue
                    present.add(k.value)
                    if k.value not in members:
                        ctx.ob(self.rs, con, f"{path}.{k.value}:member", False,
                               f"`{k.value}` is not a member of {tname} ({sorted(members)[:12]}...): asn1tools drops unknown keys silently, "
                               f"so the value never reaches the wire" if members else f"`{k.value}`: {tname} has no members", loc)
                        continue
                    ctx.ob(self.rs, con, f"{path}.{k.value}:member", True, f"member of {tname}", loc)
                    mt = S.resolve(members[k.value], t.get("_module"))
                    self.check(v, mt, fi, fl, st, f"{path}.{k.value}", env, True, depth + 1)
                if complete:
                    for n, m in members.items():
                        if n not in present and not m.get("optional") and "default" not in m:
                            ctx.ob(self.rs, con, f"{path}:mandatory:{n}", False,
                                   f"mandatory member `{n}` of {tname} is missing from the value built here: encoding fails", loc)
                return
            if isinstance(e, (ast.Tuple, ast.List, ast.Constant)):
                ctx.ob(self.rs, con, f"{path}:shape", False, f"{tname} is a SEQUENCE and needs a dict; found `{unparse(e)[:50]}`", loc)
                return
            return self._call_or_opaque(e, t, fi, fl, st, path, env, complete, depth)
        if kind == "CHOICE":
            alts = {m["name"]: m for m in S.members(t)}
            if isinstance(e, ast.Tuple) and len(e.elts) == 2 and isinstance(e.elts[0], ast.Constant):
                name = e.elts[0].value
                ok = name in alts
                ctx.ob(self.rs, con, f"{path}:choice", ok,
                       f"CHOICE {tname} alternative `{name}`" + ("" if ok else f" does not exist ({sorted(alts)})"), loc)
                if ok:
                    self.check(e.elts[1], S.resolve(alts[name], t.get("_module")), fi, fl, st, f"{path}.{name}", env, True, depth + 1)
                return
            if isinstance(e, (ast.Dict, ast.Constant, ast.List)) or (isinstance(e, ast.Tuple) and len(e.elts) != 2):
                ctx.ob(self.rs, con, f"{path}:shape", False,
                       f"{tname} is a CHOICE: asn1tools needs a (alternative-name, value) tuple; found `{unparse(e)[:60]}` - encoding raises",
                       loc)
                return
            return self._call_or_opaque(e, t, fi, fl, st, path, env, complete, depth)
        if kind == "BIT STRING":
            if isinstance(e, ast.Tuple) and len(e.elts) == 2:
                n = self.P.try_fold(fi.module, e.elts[1])
                sz = t.get("size")
                ok = True
                if isinstance(n, int) and sz and isinstance(sz[0], int):
                    ok = n == sz[0]
                elif isinstance(n, int) and sz and isinstance(sz[0], tuple):
                    ok = sz[0][0] <= n <= sz[0][1]
                ctx.ob(self.rs, con, f"{path}:bitstring", ok, f"BIT STRING {tname} given as (bytes, {n}) (size {sz})", loc)
                return
            is_bytes = isinstance(e, ast.Call) and ((dotted(e.func) or "") in ("bytes", "bytearray") or
                                                    (isinstance(e.func, ast.Attribute) and e.func.attr == "to_bytes"))
            if isinstance(e, (ast.Constant, ast.Dict, ast.List)) or is_bytes:
                ctx.ob(self.rs, con, f"{path}:shape", False,
                       f"{tname} is a BIT STRING: asn1tools needs a (bytes, number-of-bits) pair; found `{unparse(e)[:50]}` - encoding raises", loc)
                return
            return self._call_or_opaque(e, t, fi, fl, st, path, env, complete, depth)
        if kind == "ENUMERATED":
            names = S.enum_names(t)
            vals = self._string_values(e, fi)
            if vals is not None:
                for v in vals:
                    ctx.ob(self.rs, con, f"{path}:enum:{v}", v in names, f"`{v}` " + ("is" if v in names else "is NOT") + f" an enumerator of {tname}"
                           + ("" if v in names else f" ({names[:10]}...)"), loc)
                return
            if isinstance(e, ast.Constant) and not isinstance(e.value, str):
                ctx.ob(self.rs, con, f"{path}:shape", False, f"{tname} is ENUMERATED and needs the enumerator name (str); found `{e.value!r}`", loc)
                return
            return self._call_or_opaque(e, t, fi, fl, st, path, env, complete, depth)
        if kind == "INTEGER":
            rng = S.int_range(t)
            if isinstance(e, ast.Constant) and isinstance(e.value, str):
                ctx.ob(self.rs, con, f"{path}:shape", False, f"{tname} is an INTEGER; found the string `{e.value}`", loc)
                return
            if isinstance(e, (ast.Dict, ast.Tuple, ast.List)):
                ctx.ob(self.rs, con, f"{path}:shape", False, f"{tname} is an INTEGER; found `{unparse(e)[:40]}`", loc)
                return
            if rng is None:
                return
            if isinstance(e, ast.Call) and self._repo_target(fi, e) is not None:
                return self._call_or_opaque(e, t, fi, fl, st, path, env, complete, depth)
            lo, hi = self.ival(e, fi, fl, st, env)
            if lo == -INF and hi == INF:
                self.n_opaque += 1
                return
            ok = rng[0] <= lo and hi <= rng[1]
            ctx.ob(self.rr, con, f"{path}:range", ok,
                   f"`{pretty(unparse(e))[:60]}` ranges over [{lo}, {hi}] for the inputs of the quantifier; {tname} allows [{rng[0]}, {rng[1]}]"
                   + ("" if ok else " - values outside make the encoder raise (or wrap)"), loc)
            # a measured value must never land on the element's `unavailable` code point
            nn = t.get("named-numbers") or {}
            un = nn.get("unavailable")
            if ok and isinstance(un, int) and lo < hi:
                hit = lo <= un <= hi
                ctx.ob(self.rr, con, f"{path}:codepoint", not hit,
                       f"computed values [{lo}, {hi}] " + ("include" if hit else "exclude") + f" {un}, the `unavailable` code of {tname}"
                       + (": an available (e.g. out-of-range) measurement is announced as unavailable" if hit else ""), loc)
            return
        if kind in ("SEQUENCE OF", "SET OF"):
            et = S.resolve(t.get("element", {}), t.get("_module"))
            if isinstance(e, (ast.List, ast.Tuple)):
                for i, x in enumerate(e.elts):
                    self.check(x, et, fi, fl, st, f"{path}[{i}]", env, True, depth + 1)
                return
            if isinstance(e, ast.Dict):
                ctx.ob(self.rs, con, f"{path}:shape", False, f"{tname} is a SEQUENCE OF and needs a list; found a dict", loc)
                return
            return self._call_or_opaque(e, t, fi, fl, st, path, env, complete, depth)
        if kind == "OCTET STRING" or kind == "OPEN":
            if isinstance(e, (ast.Dict, ast.Tuple)) and kind == "OCTET STRING":
                ctx.ob(self.rs, con, f"{path}:shape", False, f"{tname} is an OCTET STRING and needs bytes", loc)
            return
        return

    def _string_values(self, e, fi) -> Optional[list]:
        """Possible string values of `e`: constants, Enum(.value) members, `(A or B).value`."""
        P = self.P
        if isinstance(e, ast.Constant) and isinstance(e.value, str):
            return [e.value]
        if isinstance(e, ast.Attribute) and e.attr == "value":
            base = e.value
            cands = base.values if isinstance(base, ast.BoolOp) else [base]
            out = []
            for c in cands:
                r = P.resolve_expr_entity(fi.module, c)
                if isinstance(r, tuple) and r[0] == "enum":
                    v = r[1].enum_members.get(r[2])
                    if isinstance(v, str):
                        out.append(v)
                    continue
                # attribute holding an enum instance: all members of its annotated class
                ts = [x for x in P.expr_types(fi, c) if isinstance(x, str) and x in P.classes and P.classes[x].is_enum]
                if ts:
                    for x in ts:
                        out.extend(v for v in P.classes[x].enum_members.values() if isinstance(v, str))
                else:
                    return None
            return out or None
        return None

    def _repo_target(self, fi, call) -> Optional[FuncInfo]:
        tg = [t for t in self.P.call_targets(fi, call, count=False, cha=False) if isinstance(t, FuncInfo)]
        return tg[0] if len(tg) == 1 else None

    def _call_or_opaque(self, e, t, fi, fl, st, path, env, complete, depth):
        """Value produced by a repository function: check every return expression of the callee in its own context."""
        if isinstance(e, ast.Call):
            callee = self._repo_target(fi, e)
            if callee is not None and self._inl < 6:
                params = callee.params
                off = 1 if callee.kind in ("method", "classmethod") and params else 0
                cenv = {}
                for i, a in enumerate(e.args):
                    if i + off < len(params):
                        cenv[params[i + off]] = (a, fi, fl, st, env)
                for kw in e.keywords:
                    if kw.arg:
                        cenv[kw.arg] = (kw.value, fi, fl, st, env)
                cfl = self.ctx.flows.get(callee)
                self._inl += 1
                try:
                    for k, s, cst in cfl.exits:
                        if k == "return" and s.value is not None:
                            defs = cfl.reaching(s.value.id, cst) if isinstance(s.value, ast.Name) else []
                            if len(defs) > 1 and all(d.value is not None and d.kind in ("assign", "aug") for d in defs):
                                # a merged local: every definition is checked under the guards of ITS OWN branch
                                for d in defs:
                                    dst = cfl.before.get(id(d.stmt), cst)
                                    self.check(cfl.expand(d.value, dst), t, callee, cfl, dst, path, cenv, complete, depth + 1)
                                continue
                            for alt in cfl.alternatives(s.value, cst, limit=8):
                                self.check(alt, t, callee, cfl, cst, path, cenv, complete, depth + 1)
                finally:
                    self._inl -= 1
                return
        self.n_opaque += 1

    # ------------------------------------------------------------------ paths into the type tree
    def descend(self, t: dict, path: list, template: ast.AST = None):
        """Follow constant subscripts from type `t`; int index 1 on a CHOICE selects the alternative named by the
        template literal (the white message).  Returns (type node, template sub-literal) or (None, reason)."""
        S = self.S
        cur, tpl = t, template
        for k in path:
            kind = cur.get("type")
            if kind in ("SEQUENCE", "SET") and isinstance(k, str):
                mem = {m["name"]: m for m in S.members(cur)}
                if k not in mem:
                    return None, f"`{k}` is not a member of {cur.get('_name', kind)} ({sorted(mem)[:14]})"
                cur = S.resolve(mem[k], cur.get("_module"))
                if isinstance(tpl, ast.Dict):
                    nxt = None
                    for kk, vv in zip(tpl.keys, tpl.values):
                        if isinstance(kk, ast.Constant) and kk.value == k:
                            nxt = vv
                    tpl = nxt
                else:
                    tpl = None
            elif kind == "CHOICE" and k == 1:
                alts = {m["name"]: m for m in S.members(cur)}
                name = None
                if isinstance(tpl, ast.Tuple) and len(tpl.elts) == 2 and isinstance(tpl.elts[0], ast.Constant):
                    name = tpl.elts[0].value
                if name is None or name not in alts:
                    return None, f"index [1] on CHOICE {cur.get('_name')} but the alternative in force is unknown"
                cur = S.resolve(alts[name], cur.get("_module"))
                tpl = tpl.elts[1]
            elif kind == "CHOICE" and k == 0:
                return {"type": "CHOICENAME", "_name": cur.get("_name")}, None      # the alternative's name
            elif kind == "CHOICE" and isinstance(k, str):
                return None, (f"{cur.get('_name', 'CHOICE')} is a CHOICE: a decoded/encoded value is the tuple (alternative, value); "
                              f"subscripting it with the string `{k}` raises TypeError / never matches")
            elif kind in ("SEQUENCE OF", "SET OF") and isinstance(k, int):
                cur = S.resolve(cur.get("element", {}), cur.get("_module"))
                tpl = tpl.elts[k] if isinstance(tpl, (ast.List, ast.Tuple)) and k < len(tpl.elts) else None
            elif kind == "BIT STRING" and isinstance(k, int):
                return {"type": "BITPART", "_name": cur.get("_name")}, None
            else:
                return None, f"cannot subscript {cur.get('_name', kind)} ({kind}) with {k!r}"
        return cur, tpl
