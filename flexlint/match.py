"""Matchers over must-facts: interval bounds, call facts (transitively through always-calls summaries)."""
from __future__ import annotations

import ast
import copy
import re
from typing import Optional

from .prog import AnalysisError, ClassInfo, FuncInfo, Program, dotted, unparse
from .flow import Fact, FunctionFlow, State

_VER = re.compile(r"@p?[0-9_]+")


def pretty(s: str) -> str:
    return _VER.sub("", s)


def linear(prog: Program, mod, e: ast.AST):
    """e == term + c  ->  (term string, c) ; constants -> (None, c) ; else (unparse(e), 0)."""
    c = prog.try_fold(mod, e)
    if isinstance(c, (int, float)) and not isinstance(c, bool):
        return None, c
    if isinstance(e, ast.BinOp) and isinstance(e.op, (ast.Add, ast.Sub)):
        lt, lc = linear(prog, mod, e.left)
        rt, rc = linear(prog, mod, e.right)
        if rt is None:
            return lt, lc + (rc if isinstance(e.op, ast.Add) else -rc)
        if lt is None and isinstance(e.op, ast.Add):
            return rt, lc + rc
    return unparse(e), 0


def _same(a: Optional[str], b: str) -> bool:
    return a is not None and re.sub(r"\s+", "", pretty(a)) == re.sub(r"\s+", "", pretty(b))


def int_lower_bound(prog: Program, mod, facts, term: str) -> Optional[int]:
    """Greatest integer lower bound on `term` implied by single cond facts (term is an int-valued expression)."""
    best = None
    for f in facts:
        if f.kind != "cond" or not isinstance(f.xnode, ast.Compare) or len(f.xnode.ops) != 1:
            continue
        op, a, b = f.xnode.ops[0], f.xnode.left, f.xnode.comparators[0]
        (ta, ca), (tb, cb) = linear(prog, mod, a), linear(prog, mod, b)
        lb = None
        if f.pol and isinstance(op, (ast.Gt, ast.GtE)):
            # a > b / a >= b
            if _same(ta, term) and tb is None:
                lb = (cb - ca) + (1 if isinstance(op, ast.Gt) else 0)      # term + ca > cb
        elif f.pol and isinstance(op, ast.Eq):
            if _same(ta, term) and tb is None:
                lb = cb - ca
            elif _same(tb, term) and ta is None:
                lb = ca - cb
        if lb is not None:
            import math
            lb = math.ceil(lb) if not isinstance(lb, int) else lb
            best = lb if best is None else max(best, lb)
    return best


def int_upper_bound(prog: Program, mod, facts, term: str) -> Optional[int]:
    best = None
    for f in facts:
        if f.kind != "cond" or not isinstance(f.xnode, ast.Compare) or len(f.xnode.ops) != 1:
            continue
        op, a, b = f.xnode.ops[0], f.xnode.left, f.xnode.comparators[0]
        (ta, ca), (tb, cb) = linear(prog, mod, a), linear(prog, mod, b)
        ub = None
        if f.pol and isinstance(op, (ast.Gt, ast.GtE)):
            if _same(tb, term) and ta is None:      # ca > term + cb
                ub = (ca - cb) - (1 if isinstance(op, ast.Gt) else 0)
        elif f.pol and isinstance(op, ast.Eq):
            if _same(ta, term) and tb is None:
                ub = cb - ca
        if ub is not None:
            best = ub if best is None else min(best, ub)
    return best


def cond_holds(facts, pred) -> Optional[Fact]:
    """First cond fact for which pred(xkey_pretty, polarity, fact) is true."""
    for f in facts:
        if f.kind == "cond" and pred(pretty(f.xkey), f.pol, f):
            return f
    return None


class CallSummaries:
    """always-calls(f): callees certainly invoked (with arguments in terms of f's parameters) on every normal exit."""

    def __init__(self, prog: Program, flows):
        self.prog = prog
        self.flows = flows
        self._cache: dict = {}
        self._busy: set = set()

    def always(self, fi: FuncInfo) -> list:
        """[(callee qual, [arg strings in terms of fi's params, versions stripped], line)] including transitive ones."""
        if fi.qual in self._cache:
            return self._cache[fi.qual]
        if fi.qual in self._busy:
            return []
        self._busy.add(fi.qual)
        try:
            fl = self.flows.get(fi)
            normal = [st for k, s, st in fl.exits if k in ("return", "fall")]
            if not normal:
                self._cache[fi.qual] = []
                return []
            common = None
            for st in normal:
                calls = {f.ident(): f for f in st.facts if f.kind == "call"}
                common = calls if common is None else {k: v for k, v in common.items() if k in calls}
            out = []
            for f in (common or {}).values():
                if not isinstance(f.xnode, ast.Call):
                    continue
                args = [pretty(unparse(a)) for a in f.xnode.args] + \
                       [f"{kw.arg}={pretty(unparse(kw.value))}" for kw in f.xnode.keywords if kw.arg]
                for tq in f.targets:
                    out.append((tq, args, f.line))
                    callee = self.prog.funcs.get(tq)
                    if callee is not None and callee.qual != fi.qual:
                        sub = self.always(callee)
                        if sub:
                            amap = self._arg_map(callee, f.xnode)
                            for q2, a2, l2 in sub:
                                out.append((q2, [self._subst(x, amap) for x in a2], f.line))
            self._cache[fi.qual] = out
            return out
        finally:
            self._busy.discard(fi.qual)

    def _arg_map(self, callee: FuncInfo, call: ast.Call) -> dict:
        params = callee.params
        off = 1 if callee.kind in ("method", "classmethod", "property") and params else 0
        m = {}
        for i, a in enumerate(call.args):
            if i + off < len(params):
                m[params[i + off]] = pretty(unparse(a))
        for kw in call.keywords:
            if kw.arg:
                m[kw.arg] = pretty(unparse(kw.value))
        if off and isinstance(call.func, ast.Attribute):
            m[params[0]] = pretty(unparse(call.func.value))
        return m

    @staticmethod
    def _subst(text: str, amap: dict) -> str:
        def rep(mo):
            w = mo.group(0)
            return amap.get(w, w)
        return re.sub(r"'[^']*'|\"[^\"]*\"|(?<![.\w])[A-Za-z_][A-Za-z_0-9]*\b", rep, text)

    def called_before(self, fi: FuncInfo, flow: FunctionFlow, st: State, target_suffix: str) -> list:
        """Argument lists (strings, caller terms) of every call to `target_suffix` certainly made before the state,
        directly or inside a callee that always makes it."""
        out = []
        for f in st.facts:
            if f.kind != "call" or not isinstance(f.xnode, ast.Call):
                continue
            for tq in f.targets:
                if tq.endswith(target_suffix):
                    out.append([pretty(unparse(a)) for a in f.xnode.args])
                callee = self.prog.funcs.get(tq)
                if callee is not None:
                    amap = self._arg_map(callee, f.xnode)
                    for q2, a2, _ in self.always(callee):
                        if q2.endswith(target_suffix):
                            out.append([self._subst(x, amap) for x in a2])
        return out
