"""Self-test cases of the thorough tier (see selftest.py).

CASES[prop] = list of dicts:
  name  - short identifier
  file  - path below src/flexstack/
  old   - anchor text, must occur exactly once in the file (otherwise the case is reported stale)
  new   - replacement
  rule  - for mutants: prefix of the rule that must fire
  kind  - "mutant" (default: breaks a clause, program still compiles and the pinned suite is not expected to notice)
          or "twin" (behaviour-preserving rewrite: the check must stay silent)
Per-property lists live in flexlint/mutants_data/<prop>.py so they can be maintained independently.
"""
from __future__ import annotations

import importlib
import os
import pkgutil

CASES: dict = {}

_pkg = os.path.join(os.path.dirname(__file__), "mutants_data")
if os.path.isdir(_pkg):
    for m in pkgutil.iter_modules([_pkg]):
        mod = importlib.import_module(f"flexlint.mutants_data.{m.name}")
        CASES[m.name.upper()] = list(getattr(mod, "CASES", []))
