"""Per-property claim texts for MANIFEST.json (tools/gen_manifest.py).  One entry per CLAIMED property."""

NOTES = ("All checks are static: they parse /repo's working tree on every run (python ast), never import or execute "
         "repository code, and decide structural necessary conditions of each property (clause split in DESIGN.md "
         "section 4). Exit 0 = all rule instances hold or fail only at constructs listed `open:` in KNOWN_FINDINGS.txt; "
         "exit 1 = VIOLATION; exit 2 = ANALYSIS-ERROR (anchor vanished / vacuity floor / unknown shape).")

_BASE_NOTE = ("Trusted base: CPython ast; flexlint's loader, resolver (annotation-driven types + CHA), must-facts walker; "
              "the embedded spec tables; no run-time monkey-patching of analysed classes. ")

CHECKS = {
    "C02": {
        "technique": "static analysis: abstract interpretation of codec shift/mask/slice expressions into bit-layout tables, "
                     "compared writer vs reader vs EN 302 636-4-1 clause 9 tables; ast provenance rules on header constructions",
        "text": "Decides the wire LAYOUT clauses of C02 for every value of every field at once: bit offset and width of each "
                "field in all 14 codecs (writer = reader = clause 9 / BTP clause 7 table), total lengths and reader guards, "
                "two's-complement handling of the signed fields (writer reduces modulo 2^w, reader sign-extends), enumeration "
                "code points, mobility flag = MSB of the flags octet at every CommonHeader construction, zero reserved fields "
                "and PL provenance at origination, and the operand order Basic||Common||Extended||payload of every packet "
                "handed to LinkLayer.send. Does NOT decide octet equality of whole packets against a reference encoder per "
                "request (value level) - a layout table is a necessary condition of it.",
        "note": _BASE_NOTE + "Spec tables embedded from EN 302 636-4-1 V1.4.1 clause 9 and EN 302 636-5-1 clause 7; ST code "
                "points only checked to fit 5 bits.",
    },
    "C04": {
        "technique": "static analysis: whole-program may-raise summaries (exception-class fixpoint over the resolved call graph, callback slots resolved by a wiring table) checked against the handlers of each receive loop; cannot-raise list for handler bodies; implication between guard formulas for the address filter; ordering rule (content-dependent rejection before the first transitive state write) in every receive handler",
        "text": "Decides that no exception CLASS can propagate from the wired receive-callback closure (GN router, verify "
                "service, BTP router, CAM/DENM/VAM reception, LDM adaptation, clustering) out of RawLinkLayer.receive or "
                "PythonCV2XLinkLayer.callback_handler_loop, that no handler catching such an exception leaves the loop, that "
                "nothing escapes the thread function, and that the raw link layer delivers only frames addressed to the own "
                "MAC or broadcasts not sent by itself. Reasoning is over exception classes, hence over every frame. Does NOT "
                "decide that later frames are processed 'as if the bad frame had never been received' (state equivalence is "
                "value level).",
        "note": _BASE_NOTE + "Implicit AttributeError/TypeError of Python dynamism are not modelled as sources; asn1tools, ecdsa, "
                "tinydb, dateutil and application callbacks are treated as raising Exception; sockets raise OSError.",
    },
    "C15": {
        "technique": "static analysis: lockset (held-locks dataflow over `with` regions + entry locksets), critical-section "
                     "atomicity, lock-order graph over resolved calls, frozen-dataclass / single-snapshot rules",
        "text": "Decides the schedule-independent necessary conditions of C15: every access to the 13 shared fields of the GN "
                "router / location table holds the lock the shared-state table names; read-then-write of one field stays in "
                "one critical section (CBF test+remove, LS pop+flush, sequence-number RMW); CBF timer sends only after removing "
                "its key and outside the lock; the acquired-while-held graph is acyclic and no non-reentrant Lock is re-acquired "
                "through calls; position-vector classes are frozen and never built from several reads of a shared PV. Does NOT "
                "decide the claims as schedule properties (observed numbers, exactly-once flush) nor thread death by I/O faults.",
        "note": _BASE_NOTE + "The shared-state table is frozen in rules/c15.py (one reason per row, confirmed by reading every "
                "access) and fails closed (ANALYSIS-ERROR) when a row matches nothing; only `with <lock>:` locking is understood "
                "(explicit acquire()/release() aborts the analysis).",
    },
    "C16": {
        "technique": "static analysis: lockset, critical-section atomicity, snapshot/iteration discipline and lock-order graph "
                     "for the in-memory LDM",
        "text": "Decides: every access to the store dictionary, id counter, provider/consumer registries, subscription list and "
                "last-notified map holds the owning RLock; read-then-write of one field is one critical section; live shared "
                "containers are never returned, and never mutated while a loop iterates them without leaving the loop; the "
                "maintenance-thread wrapper locks every delegated store call; lock graph acyclic; consumer callbacks invoked "
                "with no LDM lock held. Does NOT decide linearizability of multi-step IF.LDM operations, nor TinyDB.",
        "note": _BASE_NOTE + "Shared-state table frozen in rules/c16.py; fails closed when a row matches nothing.",
    },
    "C03": {
        "technique": "static analysis: guard-fact (must-pass-through) and access-path provenance rules forming a sanitiser "
                     "discipline; truth-condition extraction of the certificate predicates",
        "text": "Decides: every call of the common-header dispatcher is guarded by 'security not enabled' or by "
                "verify(received bytes).report == SUCCESS and then dispatches exactly that confirm's plain_message; every "
                "construction of a SUCCESS confirm is guarded by a true backend.verify_with_pk over the re-encoded tbsData of "
                "the same decoded message, with that message's signature, under the verification key of a ticket that (a) came "
                "from the certificate library's signer lookups on the message's own signer field, (b) is not None, verified "
                "(Certificate.verify) and is an authorization ticket; the delivered plain message is the payload inside the same "
                "tbsData; the library's lookups return only exact-key known tickets or certificates that verified with an issuer "
                "from the library's dictionaries; Certificate.verify / verify_signature / PythonECDSABackend.verify_with_pk can "
                "only answer True through the signature, issuer-correspondence and permission-containment checks. Does NOT "
                "decide cryptographic strength or OER-parser behaviour under bit flips.",
        "note": _BASE_NOTE + "The suite mocks verify(), the library and certificates; these rules read the real code. Values "
                "are compared as access paths after expanding locals (SSA-style), so routing through locals/helpers is neutral.",
    },
    "C06": {
        "technique": "static analysis: must-call (transitive always-calls summaries), guard intervals and provenance of the "
                     "forwarded packet operands over all receive handlers",
        "text": "Decides for all 8 receive handlers (found from the dispatcher): every delivery, forward (immediate or CBF-deferred) "
                "and location-table update is dominated by duplicate_address_detection on the decoded source address; every "
                "multi-hop delivery/forward is dominated by check_duplicate_sn on the decoded sequence number and no sink sits in "
                "an except handler; every forwarded copy is <received basic header>.set_rhl(rhl-1) under an established lower "
                "bound RHL >= 2, followed by the received common header, the decoded extended header (DE PV replaced only under "
                "`LocT tst > packet tst`) and the residual payload; DPL ring bookkeeping (raise iff member, before insertion, "
                "paired add/append, eviction only when full); CBF timers armed only for new keys, duplicates pop+cancel, and "
                "overheard duplicates reach the cancel. Does NOT decide flood termination, timer expiry points, SN wrap-around.",
        "note": _BASE_NOTE + "Helper functions (gn_data_forward_gbc, gn_area_cbf_forwarding) are analysed with the facts of all "
                "their in-source call sites (intersection).",
    },
    "C07": {
        "technique": "static analysis: guard facts on delivery/emission sinks, formula identity by polynomial normal form, "
                     "decision-table path conditions",
        "text": "Decides: every GNDataIndication of the GBC/GAC receivers is guarded by F >= 0 with F = geometric function of "
                "(the packet's shape sub-type, the area built field-by-field from the decoded header, the ego position), GAC "
                "forwards only under F < 0; the circle/rectangle/ellipse branches of gn_geometric_function_f and the three area "
                "size formulas are algebraically identical to EN 302 931 / Annex B.3 (polynomial normal form, min/max canonical) "
                "and use the azimuth; the size guard `area <= itsGnMaxGeoAreaSize km^2` dominates every origination and forward "
                "and over-size requests get GEOGRAPHICAL_SCOPE_TOO_LARGE; the Annex D selection returns AREA iff F(ego) >= 0, "
                "DISCARD only for outside ego + accurate inside sender, and no packet is emitted unless the outcome is AREA or "
                "NON-AREA. Does NOT decide the numerical accuracy of the distance projection.",
        "note": _BASE_NOTE + "EN 302 931 shape formulas embedded in rules/c07.py.",
    },
    "C08": {
        "technique": "static analysis: guard facts on stores, exact truth table by interpreting the comparison methods' syntax "
                     "trees on the cells of d = a - b, structural rules on the expiry predicate",
        "text": "Decides: every store to a LocTE position vector is guarded by strict `new.tst > stored.tst` (or never-filled); "
                "TST's >,>=,<,<=,== form the wrap-around serial order on all 11 region representatives of d = a - b (exact: the "
                "methods only compare against 0 and 2^31, which is checked) - irreflexive, antisymmetric, consistent; "
                "is_neighbour becomes True only from beacon/SHB processing and False only for newly created entries; every table "
                "update is dominated by DAD; the expiry predicate ages by the entry's PV timestamp against a millisecond clock with "
                "a `timestamp ahead of clock` alternative, refresh_table filters by it and both readers apply it. Does NOT decide "
                "table contents over histories with clock advances.",
        "note": _BASE_NOTE + "The TST methods are interpreted by flexlint's own expression/statement interpreter on chosen "
                "integers (the repository code is not executed).",
    },
    "C19": {
        "technique": "static analysis: symbolic paths of the loop-free DCC methods (branch conditions and stored values in entry-state terms), polynomial formula identities for LIMERIC and the gate equations, table agreement rules, complete evaluation of the table selection over 0..4000 us",
        "text": "Decides: Annex A tables are internally consistent (bands contiguous from 0 to above 1 in state order, rate x T_off "
                "= 1000, rates monotone); the reactive machine stores one state per evaluation, moves by -1/0/+1 towards the "
                "target and outputs the row of the state just stored; CBR inputs are range-checked before any state change; the "
                "adaptive update implements equations 1-5 of clause 5.4 as formula identities incl. both clamps, and every "
                "return follows the stores; the gate keeper schedules t_go = t + clamp(t_on/delta) (B.1) and t_pg + clamp(delta_old/"
                "delta_new * (t_go - t_pg)) (B.2) with clamps [25 ms, 1 s], admits only when open and after storing both times, "
                "rescales only while closed, rejects non-positive t_on/delta. Does NOT decide convergence within four "
                "evaluations nor float rounding.",
        "note": _BASE_NOTE + "No Annex A numbers are embedded (internal agreement only); equations from TS 102 687 clause 5.4 / "
                "Annex B are embedded as expression templates.",
    },
    "C20": {
        "technique": "static analysis: exact piecewise table of the lifetime quantiser on the finite partition induced by the 4 x 64 representable values, per-site argument binding of lifetime / hop-limit sources, structural guard rules",
        "text": "Decides: for every requested lifetime 0..7 000 000 ms (exhaustive over the partition induced by the constants the "
                "function uses and the representable values) the encoded lifetime never exceeds the request, is non-zero from 50 ms, "
                "is the largest representable value and keeps the multiplier in 6 bits; reader units = clause 9.6.4; LT of an "
                "originated packet derives from the request (s->ms) or the MIB default, indications report the received header's "
                "LT (floor) and RHL; RHL/MHL: single-hop and beacons 1/1, multi-hop both from `requested if > 1 else MIB default`; "
                "the header put on the wire is the initialised one (only NH re-stamped); copy methods of BasicHeader forward all "
                "other fields; every receive handler is reached only under RHL <= MHL. Bit positions: C02.",
        "note": _BASE_NOTE + "The quantiser is interpreted by flexlint's own interpreter on the end points of each partition "
                "cell; exactness of the partition is derived from the comparison/division constants found in the function "
                "(shape outside the understood forms => ANALYSIS-ERROR).",
    },
    "C09": {
        "technique": "static analysis: who-writes / who-calls effect rules, guard facts on admission stores and SUCCESS "
                     "constructions, truth-condition extraction of Certificate.verify, structural rules on the issuing API",
        "text": "Decides: the four trust dictionaries are written only by CertificateLibrary.add_*; roots are admitted only from "
                "the library constructor (configured roots); every admission store puts the checked certificate under its own "
                "HashedId8, after certificate.verify(backend) and - except roots - a non-None issuer found in the library's "
                "dictionaries; every True answer of Certificate.verify carries issuer correspondence, permission containment "
                "(needed = certIssuePermissions + appPermissions, all-in issuer's allowed) and the signature under the issuer's "
                "(resp. own) key; a SUCCESS verdict requires PSID in the ticket's appPermissions and generationTime within "
                "validity (both reported as known findings today); issue_certificate signs a non-self-signed subject only under "
                "permission containment and chain-length budget, and set_chain_length_issue_permissions decrements every "
                "permission on every path and removes exhausted ones. Does NOT decide forged chains as values.",
        "note": _BASE_NOTE + "Two findings are listed in KNOWN_FINDINGS.txt (msg-psid, msg-validity): pinned by mocked tests.",
    },
    "C01": {
        "technique": "static analysis: codec-length vs slice-constant agreement, keyword forwarding (provenance) rules across "
                     "BTP<->GN, guard facts on delivery / emission sinks, location-service buffering protocol",
        "text": "Decides: every slice a consumer applies (packet[0:N] / packet[N:] in the dispatcher and the 8 handlers, the 4 "
                "media-dependent SHB octets, BTP data[4:]) equals the wire length of the codec it strips (lengths from the C02 "
                "layout tables); the handler table is indexed by the destination port decoded from this packet's BTP header and "
                "the callback receives the decoded ports plus payload/PV/transport type of the GN indication; every "
                "GNDataRequest keyword is fed by the same-named BTPDataRequest attribute on both BTP branches and the GN payload "
                "is <BTP header>.encode() + request.data; every GN indication carries the residual payload, decoded SO PV, NH "
                "and TC; unicast delivery only when DE address = own address, up-call only with an indication; a unicast is "
                "sent only for a known destination with no lookup pending, the triggering request is buffered on both branches "
                "of gn_ls_request, the reply flushes the popped buffer through gn_data_request_guc, give-up discards it; all "
                "origination functions consult the security switch (5 known findings). Does NOT decide exactly-once / order "
                "over histories; hemisphere arithmetic is C02.signed, geometry C07, duplicates C06.",
        "note": _BASE_NOTE + "C01.sec-switch findings are listed as open (feature-sized).",
    },
    "C05": {
        "technique": "static analysis: sibling/table rules between signers, verifier and router on the message dictionary tree; "
                     "who-writes rules on the certificate-inclusion state; PSID-indexed comparison of verifier exits with signer output",
        "text": "Decides: each signer TBS-encodes the tbsData of the very object it emits, writes nothing under tbsData after that "
                "encoding and places no live reference to shared mutable state inside it; headerInfo keys per profile (CAM/VAM: "
                "psid+generationTime, optional inlineP2pcdRequest/requestedCertificate; DENM: + generationLocation; generic) and, per "
                "PSID, signer-may-emit vs verifier-rejects = empty and verifier-requires within signer-always (verifier exits in "
                "disjunctive normal form with their PSID facts); signer kind per profile, the inclusion trigger `> 1 s or "
                "requested` with reset, and that only set_up_signer restarts the timer / clears the request flag; signing ticket "
                "covers the request's ITS-AID, missing ticket raises; P2PCD plumbing (who notifies whom, flag only ever set); the "
                "router signs Common||Extended||payload, dispatches profile -> signer and emits BasicHeader(NH=SECURED)||message. "
                "Does NOT decide acceptance within two exchanges over join histories, nor the 1 s timer in real time.",
        "note": _BASE_NOTE + "Profile tables from TS 103 097 V2.1.1 clause 7.1 embedded in rules/c05.py.",
    },
    "C10": {
        "technique": "static analysis: guard formulas at every generation/transmission site compared by truth table (exactly-when), argument binding, must-call facts, interpretation of the small numeric predicates on boundary partitions, formula identity of generationDeltaTime",
        "text": "Decides the structural necessary conditions of the CAM/VAM timing rules: CAMs are generated from one decision point, "
                "each site under `first CAM` or `now - last >= T_GenCam_DCC (>= 100 ms)`; condition-1 needs the dynamics trigger "
                "(heading > 4 deg with 0/360 fold, haversine > 4 m, speed > 0.5 m/s against the values stored from the last CAM's "
                "report), condition-2 fires at `elapsed >= T_GenCam`; every store to T_GenCam lies in [100, 1000]; the check timer is "
                "re-armed in a finally block and only while active; start/stop discipline; LF container iff first or >= 500 ms, "
                "stamped iff included; generationDeltaTime = (UTC ms - epoch + leap) mod 65536 from the report read once under the "
                "lock. VRU: VAMs sent from one decision point under `first` or `report >= T_GenVamMin after the last VAM`, behind "
                "the clustering gate, elapsed trigger present, LF rule (first / 2 s / cluster op) with paired stamp. Does NOT "
                "decide the interval bounds over trajectories (run properties).",
        "note": _BASE_NOTE + "The timing bounds themselves are declined; each rule is a necessary condition of them.",
    },
    "C11": {
        "technique": "static analysis: ASN.1 schema conformance of every dict/tuple literal and subscript store that flows into a "
                     "CAM/VAM/DENM dictionary (type tree parsed from the repository's ASN.1 string constants), interval "
                     "interpretation of the quantiser expressions with guard refinement, polynomial identity of unit scalings",
        "text": "Decides the conditions under which the UPER encoder raises, wraps or silently drops a value, for the whole input box "
                "of the quantifier at once: shape (dict / CHOICE pair / BIT STRING pair / enumerator), member and alternative "
                "names, mandatory members of the white templates, INTEGER ranges reachable from the GNSS input ranges (clamps "
                "and unavailable/outOfRange guards followed), the scaling coefficient of latitude/longitude/altitude/speed/"
                "heading, and every subscript the readers apply to a decoded message. 8 known findings pinned by the suite "
                "(cluster bounding-box CHOICE built as dict; three DENM management keys that are not members). Does NOT decide "
                "bit-exact UPER output, truncation vs rounding, nor the reconstruction arithmetic of generationDeltaTime.",
        "note": _BASE_NOTE + "asn1tools.parser is used as a parser of the ASN.1 text only (nothing is compiled, encoded or decoded); "
                "parse results are cached by SHA-256 of the text under /verif/.cache (cold cache costs ~40 s). Input box: lat "
                "+-90, lon +-180, altHAE -1000..10000 m, speed 0..200 m/s, track 0..360, epx/epy/epv 0..500, epd 0..360.",
    },
    "C17": {
        "technique": "static analysis: must-call and argument-binding rules on the BTP request and LDM feed, counting-loop idiom recognition with polynomial increment / ceil forms, allocator decided on its symbolic paths (complete evaluation over 0..65535) plus critical-section rule, ASN.1 schema conformance of the identity / position stores",
        "text": "Decides: every DENM is handed to BTP as a GeoBroadcast-circle request (port 2002, DENM profile, ITS-AID 37) whose "
                "area centre is the eventPosition of the very dictionary that is encoded; the repetition loop has the form "
                "`t = 0; while t < T: send; wait i; t += i` with one unconditional send before the wait, which yields ceil(T/i) "
                "for every T and i; stationId / originatingStationId come from the vehicle data; the sequence number is drawn "
                "once per event, outside the repetition loop, from manager state that advances by one under a lock; a received "
                "DENM is decoded and stored with its own event position. Does NOT decide cadence as timing nor reference-time "
                "monotonicity (clock).",
        "note": _BASE_NOTE + "Loop forms other than the recognised ones are reported as ANALYSIS-ERROR, not guessed.",
    },
    "C18": {
        "technique": "static analysis: finite typestate abstract interpretation of VBSClusteringManager (least fixpoint over all "
                     "sequences of public calls on the abstraction {enum member, None, non-None} of its state fields), guard-fact "
                     "and provenance rules for timers / heartbeat / recovery, must-call wiring rules, ASN.1 schema conformance of "
                     "the cluster containers",
        "text": "Decides on EVERY reachable abstract state (any order of role changes, commands, received VAMs, updates, any clock - "
                "tests on forgotten quantities go both ways; exception exits included): leader <=> own cluster object present; "
                "passive <=> joined id, leader id and an armed leader-lost timer; every notification phase has its start time; no "
                "assert can fail; should_transmit_vam() is False only while passive or idle and True whenever stand-alone or leader. "
                "Plus: cluster id drawn from 1..255, every cardinality store bounded below by 1; each phase ends on its own Table 14 "
                "constant and stamps its timer when entered; only the leader's VAMs refresh the leader-lost timer; leader loss and "
                "a leader's break-up (except reception-of-CPM) lead to stand-alone; the VAM generation cycle calls update() before "
                "the gate, every decoded VAM reaches on_received_vam, containers are attached under their VAM keys before "
                "encoding; cluster containers (writer and reader) conform to the VAM ASN.1 module. 1 known finding (bounding-box "
                "CHOICE built as a dict, pinned). Does NOT decide durations as elapsed time nor multi-station closed loops.",
        "note": _BASE_NOTE + "Assumptions of the typestate interpretation: the injected clock and the logger do not raise; "
                "non-Optional annotations of locals are trusted; values of identifiers, times and message contents are forgotten.",
    },
    "C12": {
        "technique": "static analysis: transitive write-effect summaries over the resolved call graph (CHA), guard facts, "
                     "returns-none summaries, keyword-forwarding rules",
        "text": "Decides: what each IF.LDM.3/4 entry point may and must write among store dictionary / id counter / registries / "
                "subscription structures; registration gating of every store mutation and query; an update replaces only the "
                "record's dataObject member; no success test on a callee that always returns None; every key of the stored record "
                "is fed by the same-named request attribute; id = counter then counter += 1, never written elsewhere; expiry "
                "predicate timestamp + validity*1000 < now and the reactive trigger. 5 known findings (delete path, update/delete "
                "gating, TinyDB update scope) are pinned by the suite. Does NOT decide equivalence with a map model over histories.",
        "note": _BASE_NOTE + "In-memory back-end; class hierarchy analysis covers reactive and threaded service/maintenance variants.",
    },
    "C13": {
        "technique": "static analysis: table agreement (operator vocabulary in three places), structural rules on the AST with canonical condition atoms, argument binding at the operator lookups, sibling rules between the two search implementations, truth-table decision of the like/notlike predicate",
        "text": "Decides: ComparisonOperators/LogicalOperators __str__ tables, OPERATOR_MAPPING keys and the literals tested by both "
                "back-ends agree; each lambda implements the comparison its key names, notlike = not like; 'and' combines with "
                "and, the other branch with or, in both back-ends; both back-ends root dotted attribute paths at record"
                "['dataObject']; an object lacking the attribute is handled per object; every search return and LDMService.query "
                "path applies the requested type selection; ordering uses the requested attributes and direction. Does NOT "
                "decide equivalence with a predicate evaluator over generated stores nor TinyDB internals.",
        "note": _BASE_NOTE,
    },
    "C14": {
        "technique": "static analysis: path-by-path symbolic walk of the subscription functions (branch conditions as canonical atoms, calls resolved and arguments bound, stores recorded), validation decision table",
        "text": "Decides: process_notifications is reached only for a non-empty result, with multiplicity satisfied and for a consumer "
                "still registered; the callback runs only when last + notify_time <= now, outside the lock, with the search result of "
                "this subscription (its types/filter/order) and its own callback; the last-notified time advances exactly when "
                "notifying; list and map are inserted/removed together; unsubscribe removes exactly the matching id for registered "
                "consumers; each of the seven validators maps to its result code and storing happens only after all passed; "
                "reactive attendance after insertion. Does NOT decide cadence as timing.",
        "note": _BASE_NOTE,
    },
}

NOT_APPLICABLE = {}
