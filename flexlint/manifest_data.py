"""Per-property claim texts for MANIFEST.json (tools/gen_manifest.py).  One entry per CLAIMED property."""

NOTES = ("All checks are static: they parse /repo's working tree on every run (python ast), never import or execute "
         "repository code, and decide structural necessary conditions of each property (clause split in DESIGN.md "
         "section 4). Exit 0 = all rule instances hold or fail only at constructs listed `open:` in KNOWN_FINDINGS.txt; "
         "exit 1 = VIOLATION; exit 2 = ANALYSIS-ERROR (anchor vanished / vacuity floor / unknown shape).")

_BASE_NOTE = ("Trusted base: CPython ast; flexlint's loader, resolver (annotation-driven types + CHA), must-facts walker; "
              "the embedded spec tables; no run-time monkey-patching of analysed classes. ")

CHECKS = {
    "C02": {
        "technique": "static analysis: abstract interpretation of codec shift/mask/slice expressions into bit-layout tables, "
                     "compared writer vs reader vs EN 302 636-4-1 clause 9 tables; ast provenance rules on header constructions",
        "text": "Decides the wire LAYOUT clauses of C02 for every value of every field at once: bit offset and width of each "
                "field in all 14 codecs (writer = reader = clause 9 / BTP clause 7 table), total lengths and reader guards, "
                "two's-complement handling of the signed fields (writer reduces modulo 2^w, reader sign-extends), enumeration "
                "code points, mobility flag = MSB of the flags octet at every CommonHeader construction, zero reserved fields "
                "and PL provenance at origination, and the operand order Basic||Common||Extended||payload of every packet "
                "handed to LinkLayer.send. Does NOT decide octet equality of whole packets against a reference encoder per "
                "request (value level) - a layout table is a necessary condition of it.",
        "note": _BASE_NOTE + "Spec tables embedded from EN 302 636-4-1 V1.4.1 clause 9 and EN 302 636-5-1 clause 7; ST code "
                "points only checked to fit 5 bits.",
    },
}

NOT_APPLICABLE = {}
