"""Thorough tier: after the check passed on the tree, prove on this run that the check still has its teeth.

For the property under check, every mutant of flexlint/mutants.py (a one-construct edit that breaks one clause while
the program still compiles) and every seeded change under /verif/seeded/<prop>-*/patch.diff is applied to a scratch
copy of the CURRENT working tree (hard-linked copy, one file rewritten), and the same static check is run on it: it
must exit 1 and name the expected rule.  Twins - behaviour-preserving rewrites of the same constructs - must leave the
check silent (exit 0).  Nothing of the repository is executed; the scratch copies live in a fresh temporary directory
that is removed before returning.

A mutant whose anchor text no longer exists in the tree is reported as `stale` (the construct was rewritten - the
mutant list needs maintenance); it does not fail the run.  A surviving mutant or a barking twin is a defect of the
CHECKER, never of the repository: it is printed as SELFTEST-MISS / SELFTEST-FALSE-ALARM and recorded in the
evidence file; the verdict on the repository (exit 0) is not changed by it unless FLEXLINT_SELFTEST_STRICT=1 (used while
developing the checker: then exit 2, analysis broken - never 1).
"""
from __future__ import annotations

import concurrent.futures
import glob
import json
import os
import shutil
import subprocess
import sys
import tempfile
import time

from .prog import REPO

VERIF = os.path.dirname(os.path.dirname(os.path.abspath(__file__)))
EVID = os.environ.get("FLEXLINT_EVIDENCE_DIR", os.path.join(VERIF, "evidence"))


def _link_tree(src_root: str, dst_root: str) -> None:
    for sub in ("src", "examples"):
        s = os.path.join(src_root, sub)
        if not os.path.isdir(s):
            continue
        for dp, dn, fn in os.walk(s):
            dn[:] = [d for d in dn if d != "__pycache__"]
            rel = os.path.relpath(dp, src_root)
            os.makedirs(os.path.join(dst_root, rel), exist_ok=True)
            for f in fn:
                if f.endswith(".pyc"):
                    continue
                a, b = os.path.join(dp, f), os.path.join(dst_root, rel, f)
                try:
                    os.link(a, b)
                except OSError:
                    shutil.copy2(a, b)


def _rewrite(path: str, text: str) -> None:
    os.unlink(path)                     # break the hard link first: never write through to /repo
    with open(path, "w") as f:
        f.write(text)


def _one(case: dict, prop: str, base: str) -> dict:
    td = tempfile.mkdtemp(prefix="case_", dir=base)
    res = {"name": case["name"], "kind": case["kind"], "expect": case.get("rule")}
    try:
        _link_tree(REPO, td)
        if "patch" in case:
            # patch(1) rewrites files via rename, so hard links are safe
            r = subprocess.run(["patch", "-p1", "-s", "-f", "--no-backup-if-mismatch", "-d", td, "-i", case["patch"]], capture_output=True, text=True)
            if r.returncode:
                res["outcome"] = "stale"
                res["why"] = "patch does not apply to the current tree"
                return res
        else:
            path = os.path.join(td, "src", "flexstack", case["file"])
            if not os.path.exists(path):
                res["outcome"], res["why"] = "stale", "file not found"
                return res
            text = open(path).read()
            if text.count(case["old"]) != 1:
                res["outcome"], res["why"] = "stale", f"anchor text occurs {text.count(case['old'])} times"
                return res
            new = text.replace(case["old"], case["new"])
            try:
                compile(new, path, "exec")
            except SyntaxError as e:
                res["outcome"], res["why"] = "stale", f"edited file does not compile: {e}"
                return res
            _rewrite(path, new)
        env = dict(os.environ, FLEXLINT_REPO=td, FLEXLINT_EVIDENCE_DIR=os.path.join(td, "ev"), VERIF_TIER="quick")
        r = subprocess.run([sys.executable, "-m", "flexlint", "check", prop, "--tier", "quick"], cwd=VERIF, env=env,
                           capture_output=True, text=True, timeout=900)
        res["exit"] = r.returncode
        fired = sorted({l.split("rule ", 1)[1].split(" ", 1)[0] for l in r.stdout.splitlines() if "violation:" in l and "rule " in l})
        res["fired"] = fired[:8]
        if case["kind"] == "twin":
            res["outcome"] = "silent" if r.returncode == 0 else "false-alarm"
            if r.returncode != 0:
                res["why"] = (r.stdout.strip().splitlines() or ["?"])[-1][:300]
        else:
            want = case.get("rule")
            hit = r.returncode == 1 and (want is None or any(f == want or f.startswith(want) for f in fired))
            res["outcome"] = "killed" if hit else "survived"
            if not hit:
                res["why"] = f"exit {r.returncode}, rules fired {fired}" + (("; " + r.stdout.strip().splitlines()[-1][:200]) if r.stdout.strip() else "")
        return res
    except subprocess.TimeoutExpired:
        res["outcome"], res["why"] = "survived", "timeout"
        return res
    finally:
        shutil.rmtree(td, ignore_errors=True)


def cases_for(prop: str) -> list:
    from . import mutants
    out = []
    for c in mutants.CASES.get(prop, []):
        d = dict(c)
        d.setdefault("kind", "mutant")
        out.append(d)
    for p in sorted(glob.glob(os.path.join(VERIF, "seeded", "*", "meta.json"))):
        try:
            meta = json.load(open(p))
        except Exception:
            continue
        det = meta.get("detected_by") or []
        if isinstance(det, str):
            det = [det]
        mine = [d for d in det if d.split(".")[0] == prop]
        if not mine:
            continue
        out.append({"name": "seeded/" + os.path.basename(os.path.dirname(p)), "kind": "mutant", "rule": mine[0],
                    "patch": os.path.join(os.path.dirname(p), "patch.diff")})
    return out


def run_selftest(prop: str, mod=None) -> int:
    cases = cases_for(prop)
    t0 = time.time()
    base = tempfile.mkdtemp(prefix=f"flexlint_selftest_{prop}_")
    results = []
    try:
        jobs = min(16, max(1, (os.cpu_count() or 4)))
        with concurrent.futures.ThreadPoolExecutor(max_workers=jobs) as ex:
            for r in ex.map(lambda c: _one(c, prop, base), cases):
                results.append(r)
    finally:
        shutil.rmtree(base, ignore_errors=True)
    killed = [r for r in results if r["outcome"] == "killed"]
    survived = [r for r in results if r["outcome"] == "survived"]
    silent = [r for r in results if r["outcome"] == "silent"]
    alarms = [r for r in results if r["outcome"] == "false-alarm"]
    stale = [r for r in results if r["outcome"] == "stale"]
    print(f"  selftest: {len(killed)} mutants detected, {len(survived)} missed, {len(silent)} twins silent, "
          f"{len(alarms)} twins alarmed, {len(stale)} stale  ({time.time() - t0:.1f} s)")
    for r in survived:
        print(f"SELFTEST-MISS property={prop} mutant={r['name']} expected-rule={r['expect']} :: {r.get('why', '')}")
    for r in alarms:
        print(f"SELFTEST-FALSE-ALARM property={prop} twin={r['name']} :: {r.get('why', '')}")
    for r in stale:
        print(f"  note: selftest case {r['name']} is stale ({r.get('why')})")
    # merge into the evidence file of this run
    path = os.path.join(EVID, f"{prop}.json")
    try:
        ev = json.load(open(path))
        ev["tier"] = "thorough"
        ev["coverage"]["selftest"] = {
            "what": "each case = the same static check run on a scratch copy of the current tree with one construct edited",
            "mutants_detected": len(killed), "mutants_missed": len(survived), "twins_silent": len(silent),
            "twins_alarmed": len(alarms), "stale": len(stale), "cases": results,
        }
        ev["wall_s"] = round(ev.get("wall_s", 0) + time.time() - t0, 3)
        json.dump(ev, open(path, "w"), indent=1)
    except Exception as e:  # pragma: no cover
        print(f"  note: evidence file not updated with selftest results: {e}")
    if (survived or alarms) and os.environ.get("FLEXLINT_SELFTEST_STRICT") == "1":
        print(f"ANALYSIS-ERROR property={prop}: the checker failed its self-test (see SELFTEST lines); the repository is not at fault")
        return 2
    return 0
