"""ASN.1 schema model (DESIGN 2.7).

The ASN.1 text is taken from the repository's module constants by constant folding (no import), parsed with
`asn1tools.parser.parse_string` (a parser only; nothing is compiled or encoded) and resolved into a type tree.
Parsing the 300 kB CDD takes several seconds, so parse results are cached on disk by the SHA-256 of the text
(/verif/.cache/asn1, git-ignored; a cold cache only costs time).

Python-side shapes follow asn1tools conventions: SEQUENCE <-> dict, CHOICE <-> (name, value) tuple,
BIT STRING <-> (bytes, nbits), ENUMERATED <-> str, OCTET STRING / open type <-> bytes, SEQUENCE OF <-> list.
"""
from __future__ import annotations

import ast
import hashlib
import os
import pickle
from typing import Optional

from .prog import AnalysisError, Program

CACHE = os.path.join(os.path.dirname(os.path.dirname(os.path.abspath(__file__))), ".cache", "asn1")


def _parse_cached(text: str) -> dict:
    h = hashlib.sha256(text.encode()).hexdigest()
    path = os.path.join(CACHE, h + ".pickle")
    if os.path.exists(path):
        try:
            return pickle.load(open(path, "rb"))
        except Exception:
            pass
    from asn1tools.parser import parse_string
    try:
        res = parse_string(text)
    except Exception as e:  # pragma: no cover
        raise AnalysisError(f"ASN.1 text does not parse: {e}")
    try:
        os.makedirs(CACHE, exist_ok=True)
        tmp = path + f".{os.getpid()}.tmp"
        pickle.dump(res, open(tmp, "wb"))
        os.replace(tmp, path)
    except OSError:
        pass
    return res


def _operands(node: ast.AST) -> list:
    if isinstance(node, ast.BinOp) and isinstance(node.op, ast.Add):
        return _operands(node.left) + _operands(node.right)
    return [node]


class Schema:
    """All modules reachable from one *_ASN1_DESCRIPTIONS constant."""

    def __init__(self, prog: Program, module_suffix: str, const_name: str):
        m = prog.module(module_suffix)
        if const_name not in m.consts:
            raise AnalysisError(f"ASN.1 constant {const_name} not found in {module_suffix}")
        self.modules: dict = {}
        # each operand of the concatenation is parsed (and cached) on its own: the CDD text is shared by CAM and DENM
        texts = []
        for op in _operands(m.consts[const_name]):
            t = prog.try_fold(m, op)
            if not isinstance(t, str):
                raise AnalysisError(f"{const_name}: operand is not a foldable string")
            texts.append(t)
        # operands may split a module in the middle: fall back to the whole text when a part does not parse alone
        try:
            for t in texts:
                if t.strip():
                    self.modules.update(_parse_cached(t))
        except AnalysisError:
            self.modules = dict(_parse_cached("".join(texts)))
        self.where: dict = {}
        for mn, mod in self.modules.items():
            for tn in mod.get("types", {}):
                self.where.setdefault(tn, mn)

    # ------------------------------------------------------------------ resolution
    def lookup(self, name: str, module: Optional[str] = None):
        if module and name in self.modules.get(module, {}).get("types", {}):
            return self.modules[module]["types"][name], module
        if module:
            imps = self.modules[module].get("imports", {})
            for src, names in imps.items():
                if name in names and src in self.modules and name in self.modules[src]["types"]:
                    return self.modules[src]["types"][name], src
        mn = self.where.get(name)
        if mn is None:
            return None, None
        return self.modules[mn]["types"][name], mn

    BUILTIN = {"INTEGER", "BOOLEAN", "ENUMERATED", "SEQUENCE", "SET", "CHOICE", "SEQUENCE OF", "SET OF", "BIT STRING",
               "OCTET STRING", "NULL", "IA5String", "UTF8String", "NumericString", "PrintableString", "VisibleString",
               "OBJECT IDENTIFIER", "REAL", "GeneralizedTime", "UTCTime"}

    def resolve(self, t, module: Optional[str] = None, depth: int = 0) -> dict:
        """Follow type references until a built-in type; constraints of referencing definitions are merged
        (the innermost restriction wins for INTEGER ranges, as all uses in these modules only narrow)."""
        if depth > 40:
            raise AnalysisError("ASN.1 reference chain too deep")
        if isinstance(t, str):
            t = {"type": t}
        tn = t.get("type")
        if tn in self.BUILTIN:
            out = dict(t)
            out["_module"] = module
            return out
        if tn is None:
            return {"type": "?", "_module": module}
        d, mod = self.lookup(tn, module)
        if d is None:
            # information-object class field / open type / parameterised reference
            return {"type": "OPEN", "_module": module, "_ref": tn}
        base = self.resolve(d, mod, depth + 1)
        out = dict(base)
        for k in ("restricted-to", "size", "with-components"):
            if k in t:
                out[k] = t[k]
        out["_name"] = tn
        return out

    # ------------------------------------------------------------------ helpers on resolved nodes
    @staticmethod
    def int_range(node: dict):
        """(lo, hi) of an INTEGER node (None when unconstrained)."""
        r = node.get("restricted-to")
        if not r:
            return None
        lo, hi = None, None
        nn = node.get("named-numbers", {}) or {}

        def val(x):
            if isinstance(x, int):
                return x
            if isinstance(x, str) and x in nn:
                return nn[x]
            return None
        for item in r:
            if isinstance(item, tuple) and len(item) == 2:
                a, b = val(item[0]), val(item[1])
            elif item is None:      # extension marker
                continue
            else:
                a = b = val(item)
            if a is None or b is None:
                return None
            lo = a if lo is None else min(lo, a)
            hi = b if hi is None else max(hi, b)
        return (lo, hi) if lo is not None else None

    @staticmethod
    def members(node: dict) -> list:
        out = []
        for m in node.get("members", []) or []:
            if isinstance(m, dict):
                out.append(m)
            elif isinstance(m, list):          # extension addition group
                out.extend(x for x in m if isinstance(x, dict))
        return out

    @staticmethod
    def enum_names(node: dict) -> list:
        out = []
        for v in node.get("values", []) or []:
            if isinstance(v, tuple):
                out.append(v[0])
            elif isinstance(v, str):
                out.append(v)
        return out

    @staticmethod
    def named_bits(node: dict) -> dict:
        nb = node.get("named-bits") or []
        return {n: int(v) for n, v in nb}
