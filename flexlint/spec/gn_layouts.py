"""Embedded oracle: EN 302 636-4-1 V1.4.1 clause 9 header layouts, EN 302 636-5-1 clause 7 BTP headers.

Each layout is a list of (leaf field name in the repository's dataclasses, width in bits, signed?)
from the most significant bit to the least significant bit.  A leaf name of None is a reserved gap
that neither side has to name.  Leaf names are the role labels used in reports; positions are what
is compared (see rules/c02.py for the renamed-field policy).
"""

GN_ADDR = [("m", 1, False), ("st", 5, False), (None, 10, False), ("mid.mid", 48, False)]


def _nest(prefix, layout):
    return [((prefix + "." + n) if n else None, w, s) for n, w, s in layout]


LPV = _nest("gn_addr", GN_ADDR) + [("tst.msec", 32, False), ("latitude", 32, True), ("longitude", 32, True),
                                   ("pai", 1, False), ("s", 15, True), ("h", 16, False)]
SPV = _nest("gn_addr", GN_ADDR) + [("tst.msec", 32, False), ("latitude", 32, True), ("longitude", 32, True)]

BASIC = [("version", 4, False), ("nh", 4, False), ("reserved", 8, False),
         ("lt.multiplier", 6, False), ("lt.base", 2, False), ("rhl", 8, False)]
COMMON = [("nh", 4, False), ("reserved", 4, False), ("ht", 4, False), ("hst", 4, False),
          ("tc.scf", 1, False), ("tc.channel_offload", 1, False), ("tc.tc_id", 6, False),
          ("flags", 8, False), ("pl", 16, False), ("mhl", 8, False), ("reserved", 8, False)]
TC = [("scf", 1, False), ("channel_offload", 1, False), ("tc_id", 6, False)]
LT = [("multiplier", 6, False), ("base", 2, False)]
GBC = [("sn", 16, False), ("reserved", 16, False)] + _nest("so_pv", LPV) + \
      [("latitude", 32, True), ("longitude", 32, True), ("a", 16, False), ("b", 16, False),
       ("angle", 16, False), ("reserved2", 16, False)]
TSB = [("sn", 16, False), ("reserved", 16, False)] + _nest("so_pv", LPV)
GUC = [("sn", 16, False), ("reserved", 16, False)] + _nest("so_pv", LPV) + _nest("de_pv", SPV)
LS_REQUEST = [("sn", 16, False), ("reserved", 16, False)] + _nest("so_pv", LPV) + _nest("request_gn_addr", GN_ADDR)
LS_REPLY = GUC
BTP_A = [("destination_port", 16, False), ("source_port", 16, False)]
BTP_B = [("destination_port", 16, False), ("destination_port_info", 16, False)]

# class name -> (layout, [(writer method, reader method)])
CODECS = {
    "geonet.basic_header.LT": (LT, [("encode_to_int", None), ("encode_to_bytes", None)]),
    "geonet.basic_header.BasicHeader": (BASIC, [("encode_to_int", "decode_from_int"), ("encode_to_bytes", "decode_from_bytes")]),
    "geonet.service_access_point.TrafficClass": (TC, [("encode_to_int", "decode_from_int"), ("encode_to_bytes", "decode_from_bytes")]),
    "geonet.common_header.CommonHeader": (COMMON, [("encode_to_int", "decode_from_int"), ("encode_to_bytes", "decode_from_bytes")]),
    "geonet.gn_address.GNAddress": (GN_ADDR, [("encode", "decode"), ("encode_to_int", None)]),
    "geonet.position_vector.LongPositionVector": (LPV, [("encode", "decode"), ("encode_to_int", None)]),
    "geonet.position_vector.ShortPositionVector": (SPV, [("encode", "decode"), ("encode_to_int", None)]),
    "geonet.gbc_extended_header.GBCExtendedHeader": (GBC, [("encode", "decode")]),
    "geonet.tsb_extended_header.TSBExtendedHeader": (TSB, [("encode", "decode")]),
    "geonet.guc_extended_header.GUCExtendedHeader": (GUC, [("encode", "decode")]),
    "geonet.ls_extended_header.LSRequestExtendedHeader": (LS_REQUEST, [("encode", "decode")]),
    "geonet.ls_extended_header.LSReplyExtendedHeader": (LS_REPLY, [("encode", "decode")]),
    "btp.btp_header.BTPAHeader": (BTP_A, [("encode", "decode"), ("encode_to_int", None)]),
    "btp.btp_header.BTPBHeader": (BTP_B, [("encode", "decode"), ("encode_to_int", None)]),
}

# enumeration code points (clause 9.6.x, 9.7.x tables)
ENUMS = {
    "geonet.basic_header.BasicNH": {"ANY": 0, "COMMON_HEADER": 1, "SECURED_PACKET": 2},
    "geonet.basic_header.LTbase": {"FIFTY_MILLISECONDS": 0, "ONE_SECOND": 1, "TEN_SECONDS": 2, "ONE_HUNDRED_SECONDS": 3},
    "geonet.service_access_point.CommonNH": {"ANY": 0, "BTP_A": 1, "BTP_B": 2, "IPV6": 3},
    "geonet.service_access_point.HeaderType": {"ANY": 0, "BEACON": 1, "GEOUNICAST": 2, "GEOANYCAST": 3,
                                               "GEOBROADCAST": 4, "TSB": 5, "LS": 6},
    "geonet.service_access_point.HeaderSubType": {"UNSPECIFIED": 0},
    "geonet.service_access_point.GeoAnycastHST": {"GEOANYCAST_CIRCLE": 0, "GEOANYCAST_RECT": 1, "GEOANYCAST_ELIP": 2},
    "geonet.service_access_point.GeoBroadcastHST": {"GEOBROADCAST_CIRCLE": 0, "GEOBROADCAST_RECT": 1, "GEOBROADCAST_ELIP": 2},
    "geonet.service_access_point.TopoBroadcastHST": {"SINGLE_HOP": 0, "MULTI_HOP": 1},
    "geonet.service_access_point.LocationServiceHST": {"LS_REQUEST": 0, "LS_REPLY": 1},
}
# enumerations that only have to fit their field (no table embedded from memory)
ENUM_FIT = {"geonet.gn_address.M": 1, "geonet.gn_address.ST": 5}
# header types whose sub-type is an enumeration of its own: HT member -> HST enum class name
HST_OF_HT = {"GEOANYCAST": "GeoAnycastHST", "GEOBROADCAST": "GeoBroadcastHST", "TSB": "TopoBroadcastHST",
             "LS": "LocationServiceHST"}


def positions(layout):
    """[(leaf, lsb, width, signed)] and total width."""
    total = sum(w for _, w, _ in layout)
    out, pos = [], total
    for n, w, s in layout:
        pos -= w
        out.append((n, pos, w, s))
    return out, total
