"""Finite typestate abstract interpretation of one class (DESIGN 2.8, used by C18).

The fields of a state-machine class are abstracted to a finite domain - an enum member, None ("N"), some non-None
value ("S"), an object with abstracted sub-fields, or unknown ("T").  Every public method is interpreted *abstractly*
over the AST (nothing is executed): conditions that test abstracted fields are decided or refine the store on both
branches, every other condition (time comparisons, counts, identifiers, message contents) is non-deterministic, calls to
methods of the same class are inlined, `with` bodies are transparent, exceptions leave through the enclosing handlers
from the state before the raising statement.  The set of stores reachable from `__init__` under any sequence of public
calls is computed as a least fixpoint; invariants are then checked on every member of that set.

Soundness argument: the abstraction forgets values but never a control path (unknown tests go both ways), so the
reachable abstract set covers every concrete history of calls - any event order, any clock.  Precision is lost only
where a transition depends on a forgotten value.
"""
from __future__ import annotations

import ast
from typing import Optional

from .prog import AnalysisError, ClassInfo, FuncInfo, Program, dotted, unparse

N, S, T = "N", "S", "T"


def E(name):
    return ("E", name)


def O(name):
    return ("O", name)


SAFE_CALL_PREFIX = ("logger.", "logging.", "math.", "random.")
SAFE_BUILTINS = {"range", "max", "min", "int", "float", "len", "sum", "set", "bytes", "abs", "isinstance", "bool", "str", "dict", "list", "tuple", "sorted"}
SAFE_METHODS = {"get", "add", "discard", "items", "values", "keys", "debug", "info", "warning", "error"}


class Machine:
    def __init__(self, prog: Program, cls: ClassInfo, sub_objects: dict = None, clock_attr: str = "_time_fn", max_states: int = 20000):
        self.P = prog
        self.cls = cls
        self.mod = cls.module
        self.clock = clock_attr
        self.sub_objects = sub_objects or {}      # field -> ClassInfo of the dataclass stored there
        self.max_states = max_states
        self.fields: dict = {}                    # tracked field -> kind
        self.enums: dict = {}
        for c in prog.classes.values():
            if c.module is self.mod and any(dotted(b) in ("Enum", "enum.Enum") for b in c.node.bases):
                self.enums[c.name] = [t.id for n in c.node.body if isinstance(n, ast.Assign) for t in n.targets if isinstance(t, ast.Name)]
        self.assert_failures: list = []
        self.attr_on_none: list = []
        self.transitions: list = []               # (method, pre, post, outcome)
        self._locals: dict = {}
        self._discover_fields()

    # ------------------------------------------------------------------ field discovery
    def _discover_fields(self):
        init = self.cls.methods.get("__init__")
        if init is None:
            raise AnalysisError(f"{self.cls.name}: no __init__")
        for n in ast.walk(init.node):
            tgt, ann = None, None
            if isinstance(n, ast.AnnAssign):
                tgt, ann = n.target, unparse(n.annotation)
            elif isinstance(n, ast.Assign) and len(n.targets) == 1:
                tgt = n.targets[0]
            if tgt is None or not (isinstance(tgt, ast.Attribute) and isinstance(tgt.value, ast.Name) and tgt.value.id == "self"):
                continue
            f = tgt.attr
            if ann and (ann.startswith("Optional[") or ann.endswith("| None")):
                self.fields[f] = "opt"
            elif ann and ann in self.enums:
                self.fields[f] = "enum"
        for f, sc in self.sub_objects.items():
            for n in sc.node.body:
                if isinstance(n, ast.AnnAssign) and isinstance(n.target, ast.Name):
                    ann = unparse(n.annotation)
                    if ann.startswith("Optional[") or ann.endswith("| None"):
                        self.fields[f + "." + n.target.id] = "opt"

    # ------------------------------------------------------------------ stores
    @staticmethod
    def freeze(store: dict):
        return tuple(sorted(store.items()))

    def fields_only(self, store: dict) -> dict:
        return {k: v for k, v in store.items() if not k.startswith("$")}

    # ------------------------------------------------------------------ expression evaluation
    def loc_of(self, e: ast.AST, depth: int) -> Optional[str]:
        """Store key of an expression that names an abstracted location."""
        d = dotted(e)
        if d is None:
            return None
        if d.startswith("self."):
            f = d[5:]
            if f in self.fields:
                return f
            return None
        if isinstance(e, ast.Name):
            if e.id in self._locals.get(depth, ()):
                return f"${depth}.{e.id}"
            return None
        return None

    @staticmethod
    def locals_of(fn: FuncInfo) -> set:
        out = set(p for p in fn.params if p != "self")
        for n in ast.walk(fn.node):
            if isinstance(n, ast.Name) and isinstance(n.ctx, ast.Store):
                out.add(n.id)
        return out

    def ev(self, e: ast.AST, store: dict, depth: int):
        """Abstract value of an expression (no side effects; calls to own methods are handled by the statement level)."""
        if isinstance(e, ast.Constant):
            if e.value is None:
                return N
            if isinstance(e.value, bool):
                return ("B", e.value)
            return S
        d = dotted(e)
        if d:
            parts = d.split(".")
            if len(parts) == 2 and parts[0] in self.enums and parts[1] in self.enums[parts[0]]:
                return E(d)
            k = self.loc_of(e, depth)
            if k is not None:
                return store.get(k, T)
            if d.startswith("self."):
                return S if d.count(".") == 1 else T
            if isinstance(e, ast.Name):
                return T
            return S
        if isinstance(e, ast.Call):
            fn = dotted(e.func) or ""
            if fn == f"self.{self.clock}":
                return S
            if any(c.module is self.mod and c.name == fn for c in self.P.classes.values()):
                return O(fn)
            if fn.startswith(("random.", "math.")):
                return S
            if fn in ("float", "int", "max", "min", "len", "sum", "bytes", "str", "abs"):
                return S
            return T
        if isinstance(e, (ast.Dict, ast.Set, ast.List, ast.Tuple, ast.JoinedStr, ast.DictComp, ast.SetComp, ast.ListComp)):
            return S
        if isinstance(e, ast.BinOp):
            return S
        if isinstance(e, ast.BoolOp) and isinstance(e.op, ast.Or):
            # `a or b`: non-None as soon as the last operand is non-None
            last = self.ev(e.values[-1], store, depth)
            return S if last == S or (isinstance(last, tuple) and last[0] in "EO") else T
        if isinstance(e, ast.IfExp):
            a, b = self.ev(e.body, store, depth), self.ev(e.orelse, store, depth)
            return a if a == b else T
        return T

    # ------------------------------------------------------------------ conditions
    def cond(self, e: ast.AST, store: dict, depth: int) -> list:
        """[(store', truth)] - every way the condition can evaluate, with the store refined accordingly."""
        if isinstance(e, ast.BoolOp):
            outs = []
            pend = [(store, None)]
            is_and = isinstance(e.op, ast.And)
            for v in e.values:
                nxt = []
                for st, _ in pend:
                    for st2, tr in self.cond(v, st, depth):
                        if tr == (not is_and):
                            outs.append((st2, tr))          # short circuit
                        else:
                            nxt.append((st2, tr))
                pend = nxt
            outs.extend((st, is_and) for st, _ in pend)
            return outs
        if isinstance(e, ast.UnaryOp) and isinstance(e.op, ast.Not):
            return [(st, not tr) for st, tr in self.cond(e.operand, store, depth)]
        if isinstance(e, ast.Compare) and len(e.ops) == 1:
            op, l, r = e.ops[0], e.left, e.comparators[0]
            if isinstance(op, (ast.Is, ast.IsNot, ast.Eq, ast.NotEq)):
                neg = isinstance(op, (ast.IsNot, ast.NotEq))
                lv, rv = self.ev(l, store, depth), self.ev(r, store, depth)
                lk, rk = self.loc_of(l, depth), self.loc_of(r, depth)
                # put the constant on the right
                if lv in (N,) or (isinstance(lv, tuple) and lv[0] == "E" and lk is None):
                    lv, rv, lk, rk = rv, lv, rk, lk
                if rv == N:
                    if lv == N:
                        return [(store, not neg)]
                    if lv == S or (isinstance(lv, tuple) and lv[0] in "EOB"):
                        return [(store, neg)]
                    if lk is not None and isinstance(op, (ast.Is, ast.IsNot)):
                        a = dict(store); a[lk] = N
                        b = dict(store); b[lk] = S
                        return [(a, not neg), (b, neg)]
                    return [(store, True), (store, False)]
                if isinstance(rv, tuple) and rv[0] == "E":
                    if isinstance(lv, tuple) and lv[0] == "E":
                        return [(store, (lv == rv) != neg)]
                    if lv == N:
                        return [(store, neg)]
                    return [(store, True), (store, False)]
                return [(store, True), (store, False)]
            if isinstance(op, (ast.In, ast.NotIn)) and isinstance(r, (ast.Tuple, ast.List, ast.Set)):
                neg = isinstance(op, ast.NotIn)
                lv = self.ev(l, store, depth)
                members = [self.ev(x, store, depth) for x in r.elts]
                if isinstance(lv, tuple) and lv[0] == "E" and all(isinstance(m, tuple) and m[0] == "E" for m in members):
                    return [(store, (lv in members) != neg)]
            return [(store, True), (store, False)]
        # truthiness
        v = self.ev(e, store, depth)
        if v == N:
            return [(store, False)]
        if isinstance(v, tuple) and v[0] in "EO":
            return [(store, True)]
        if isinstance(v, tuple) and v[0] == "B":
            return [(store, v[1])]
        k = self.loc_of(e, depth)
        if v == T and k is not None and (k in self.fields):
            a = dict(store); a[k] = N
            b = dict(store); b[k] = S
            return [(a, False), (b, True), (b, False)]     # a non-None value may still be falsy (0, empty)
        return [(store, True), (store, False)]

    # ------------------------------------------------------------------ may-raise classification
    def _own_call(self, e: ast.AST) -> Optional[FuncInfo]:
        if isinstance(e, ast.Call) and isinstance(e.func, ast.Attribute) and isinstance(e.func.value, ast.Name) and e.func.value.id == "self":
            m = self.cls.methods.get(e.func.attr)
            if m is not None:
                return m
        return None

    def pure(self, e: ast.AST, store: dict, depth: int) -> bool:
        """True when evaluating `e` cannot raise under the stated assumptions (clock and logger do not raise)."""
        for n in ast.walk(e):
            if isinstance(n, ast.Subscript):
                return False
            if isinstance(n, (ast.GeneratorExp, ast.ListComp, ast.SetComp, ast.DictComp, ast.Await, ast.Yield)):
                return False
            if isinstance(n, ast.Call):
                fn = dotted(n.func) or ""
                if fn == f"self.{self.clock}" or fn.startswith(SAFE_CALL_PREFIX) or fn in SAFE_BUILTINS:
                    continue
                if any(c.module is self.mod and c.name == fn for c in self.P.classes.values()):
                    continue
                if isinstance(n.func, ast.Attribute) and n.func.attr in SAFE_METHODS:
                    continue
                return False
            if isinstance(n, ast.Attribute) and isinstance(n.ctx, ast.Load):
                base = n.value
                k = self.loc_of(base, depth)
                if k is not None:
                    bv = store.get(k, T)
                    if bv in (N, T) and k in self.fields:
                        return False
                    if bv == T and k.startswith("$"):
                        return False           # attribute of an unknown local (e.g. reason.value)
            if isinstance(n, ast.BinOp):
                for side in (n.left, n.right):
                    k = self.loc_of(side, depth)
                    if k is not None and k in self.fields and store.get(k, T) in (N, T):
                        return False
        return True

    # ------------------------------------------------------------------ statement execution
    def run_block(self, stmts, stores: list, depth: int, fn: FuncInfo):
        """-> (fall, returns[(store, value)], raises[store])"""
        cur = stores
        rets, rais = [], []
        for s in stmts:
            nxt = []
            for st in self._dedupe(cur):
                f, r, x = self.run_stmt(s, st, depth, fn)
                nxt.extend(f)
                rets.extend(r)
                rais.extend(x)
            cur = nxt
            if not cur:
                break
        return self._dedupe(cur), rets, rais

    def _dedupe(self, stores):
        seen, out = set(), []
        for st in stores:
            k = self.freeze(st)
            if k not in seen:
                seen.add(k)
                out.append(st)
        if len(out) > self.max_states:
            raise AnalysisError("typestate: state explosion")
        return out

    def assign(self, tgt: ast.AST, val, store: dict, depth: int) -> dict:
        st = dict(store)
        d = dotted(tgt)
        if d and d.startswith("self."):
            f = d[5:]
            if f in self.fields:
                st[f] = val if val in (N, S, T) or (isinstance(val, tuple) and val[0] == "E") else S
            # object-valued tracked field: Optional sub-fields take the dataclass default (None; checked by the rule)
            if f in self.sub_objects:
                st[f] = N if val == N else O(self.sub_objects[f].name)
                for k in self.fields:
                    if k.startswith(f + "."):
                        st[k] = N
            return st
        if isinstance(tgt, ast.Name):
            st[f"${depth}.{tgt.id}"] = val
            return st
        if isinstance(tgt, (ast.Tuple, ast.List)):
            for el in tgt.elts:
                st = self.assign(el, T, st, depth)
        return st

    def call_own(self, call: ast.Call, m: FuncInfo, store: dict, depth: int):
        """Inline a call to a method of the same class: -> ([(store, retval)], raises)"""
        if depth > 6:
            raise AnalysisError("typestate: inlining too deep")
        st = dict(store)
        params = m.params[1:] if m.params and m.params[0] == "self" else m.params
        if isinstance(m.node, ast.FunctionDef) and any(dotted(d) == "staticmethod" for d in m.node.decorator_list):
            params = m.params
        for i, p in enumerate(params):
            v = T
            if i < len(call.args):
                v = self.ev(call.args[i], store, depth)
            for kw in call.keywords:
                if kw.arg == p:
                    v = self.ev(kw.value, store, depth)
            st[f"${depth + 1}.{p}"] = v
        saved = self._locals.get(depth + 1)
        self._locals[depth + 1] = self.locals_of(m)
        fall, rets, rais = self.run_block(m.node.body, [st], depth + 1, m)
        self._locals[depth + 1] = saved
        outs = [(s2, N) for s2 in fall] + rets

        def drop(s2):
            return {k: v for k, v in s2.items() if not k.startswith(f"${depth + 1}.")}
        return [(drop(s2), v) for s2, v in outs], [drop(s2) for s2 in rais]

    def eval_with_calls(self, e: ast.AST, store: dict, depth: int):
        """Evaluate an expression that may be (or contain at top level) a call to an own method.
        -> ([(store, value)], raises)"""
        m = self._own_call(e)
        if m is not None:
            return self.call_own(e, m, store, depth)
        # own calls nested deeper are evaluated for their effects first (left to right), results unknown
        outs, rais = [(store, None)], []
        for n in ast.walk(e):
            m2 = self._own_call(n)
            if m2 is not None and n is not e:
                nxt = []
                for st, _ in outs:
                    o2, r2 = self.call_own(n, m2, st, depth)
                    nxt.extend(o2)
                    rais.extend(r2)
                outs = nxt
        return [(st, self.ev(e, st, depth)) for st, _ in outs], rais

    def run_stmt(self, s: ast.stmt, store: dict, depth: int, fn: FuncInfo):
        if isinstance(s, (ast.Assign, ast.AnnAssign, ast.AugAssign)):
            val_e = s.value
            if val_e is None:
                return [store], [], []
            rais = []
            if not self.pure(val_e, store, depth) and self._own_call(val_e) is None:
                rais.append(store)
            outs, r2 = self.eval_with_calls(val_e, store, depth)
            rais.extend(r2)
            tgts = s.targets if isinstance(s, ast.Assign) else [s.target]
            fall = []
            for st, v in outs:
                if isinstance(s, ast.AugAssign):
                    v = S
                if isinstance(s, ast.AnnAssign) and v == T:
                    ann = unparse(s.annotation)
                    if not (ann.startswith("Optional[") or ann.endswith("| None") or ann in ("dict", "Any", "object")):
                        v = S           # a non-Optional annotation is trusted (trusted base)
                for t in tgts:
                    if isinstance(t, ast.Subscript) or (isinstance(t, ast.Attribute) and not self.pure(t.value, st, depth)):
                        rais.append(st)
                    st = self.assign(t, v, st, depth)
                fall.append(st)
            return fall, [], rais
        if isinstance(s, ast.Expr):
            if isinstance(s.value, ast.Constant):
                return [store], [], []
            rais = []
            if not self.pure(s.value, store, depth) and self._own_call(s.value) is None:
                rais.append(store)
            outs, r2 = self.eval_with_calls(s.value, store, depth)
            return [st for st, _ in outs], [], rais + r2
        if isinstance(s, ast.Return):
            if s.value is None:
                return [], [(store, N)], []
            rais = []
            if not self.pure(s.value, store, depth) and self._own_call(s.value) is None:
                rais.append(store)
            outs, r2 = self.eval_with_calls(s.value, store, depth)
            # a boolean-valued return over abstracted tests is resolved through cond()
            rets = []
            for st, v in outs:
                if v == T and isinstance(s.value, (ast.Compare, ast.BoolOp, ast.UnaryOp)):
                    for st2, tr in self.cond(s.value, st, depth):
                        rets.append((st2, ("B", tr)))
                else:
                    rets.append((st, v))
            return [], rets, rais + r2
        if isinstance(s, ast.If):
            fall, rets, rais = [], [], []
            if not self.pure(s.test, store, depth):
                rais.append(store)
            for st, tr in self.cond(s.test, store, depth):
                f, r, x = self.run_block(s.body if tr else s.orelse, [st], depth, fn)
                fall.extend(f); rets.extend(r); rais.extend(x)
            return fall, rets, rais
        if isinstance(s, ast.With):
            return self.run_block(s.body, [store], depth, fn)
        if isinstance(s, ast.Assert):
            fall, rais = [], []
            for st, tr in self.cond(s.test, store, depth):
                if tr:
                    fall.append(st)
                else:
                    self.assert_failures.append((fn, s, self.fields_only(st)))
                    rais.append(st)
            return fall, [], rais
        if isinstance(s, (ast.For, ast.While)):
            seen = {}
            work = [store]
            rets, rais, exits = [], [], []
            if isinstance(s, ast.For) and not self.pure(s.iter, store, depth):
                rais.append(store)
            while work:
                st = work.pop()
                k = self.freeze(st)
                if k in seen:
                    continue
                seen[k] = st
                exits.append(st)                      # the loop may stop here
                st_in = st
                if isinstance(s, ast.For):
                    st_in = self.assign(s.target, T, st, depth)
                    branches = [(st_in, True)]
                else:
                    branches = self.cond(s.test, st, depth)
                for b, tr in branches:
                    if not tr:
                        continue
                    f, r, x = self.run_block(s.body, [b], depth, fn)
                    work.extend(f); rets.extend(r); rais.extend(x)
            return self._dedupe(exits), rets, rais
        if isinstance(s, ast.Try):
            f, r, x = self.run_block(s.body, [store], depth, fn)
            fall, rets, rais = list(f), list(r), []
            caught_all = any(h.type is None or dotted(h.type) in ("Exception", "BaseException") for h in s.handlers)
            for st in self._dedupe(x):
                for h in s.handlers:
                    hf, hr, hx = self.run_block(h.body, [st], depth, fn)
                    fall.extend(hf); rets.extend(hr); rais.extend(hx)
                if not caught_all:
                    rais.append(st)             # an exception of another class passes through
            if s.finalbody:
                ff, fr, fx = self.run_block(s.finalbody, fall, depth, fn)
                fall = ff; rets.extend(fr); rais.extend(fx)
            return fall, rets, rais
        if isinstance(s, ast.Raise):
            return [], [], [store]
        if isinstance(s, (ast.Pass, ast.Import, ast.ImportFrom, ast.Global, ast.Nonlocal)):
            return [store], [], []
        if isinstance(s, (ast.Break, ast.Continue)):
            return [store], [], []          # over-approximation: treated as falling through
        raise AnalysisError(f"typestate: statement kind {type(s).__name__} at {fn.module.rel}:{s.lineno} not modelled")

    # ------------------------------------------------------------------ whole machine
    def public_methods(self) -> list:
        out = []
        for name, m in self.cls.methods.items():
            if name.startswith("_"):
                continue
            out.append(m)
        return out

    def initial(self) -> list:
        init = self.cls.methods["__init__"]
        st = {}
        for p in init.params[1:]:
            st[f"$0.{p}"] = S
        self._locals[0] = self.locals_of(init)
        fall, rets, rais = self.run_block(init.node.body, [st], 0, init)
        outs = fall + [s for s, _ in rets]
        return [self.fields_only(s) for s in outs]

    def step(self, m: FuncInfo, store: dict):
        """All abstract outcomes of calling public method m in `store`: [(post, kind, value)]"""
        st = dict(store)
        is_prop = any(dotted(d) == "property" for d in m.node.decorator_list)
        params = m.params[1:]
        anns = {a.arg: (unparse(a.annotation) if a.annotation is not None else "") for a in m.node.args.args}
        variants = [st]
        for p in params:
            ann = anns.get(p, "")
            if ann.startswith("Optional[") or ann.endswith("| None"):
                variants = [dict(v, **{f"$0.{p}": x}) for v in variants for x in (N, S)]
            else:
                variants = [dict(v, **{f"$0.{p}": (T if ann in ("dict", "") else S)}) for v in variants]
        out = []
        self._locals[0] = self.locals_of(m)
        for v in variants:
            fall, rets, rais = self.run_block(m.node.body, [v], 0, m)
            for s2 in fall:
                out.append((self.fields_only(s2), "return", N))
            for s2, val in rets:
                out.append((self.fields_only(s2), "return", val))
            for s2 in rais:
                out.append((self.fields_only(s2), "raise", None))
        return out

    def reachable(self) -> dict:
        """frozen store -> store, least fixpoint over all public methods."""
        reach = {}
        work = []
        for st in self.initial():
            reach[self.freeze(st)] = st
            work.append(st)
        methods = self.public_methods()
        while work:
            st = work.pop()
            for m in methods:
                for post, kind, val in self.step(m, st):
                    self.transitions.append((m.name, self.freeze(st), self.freeze(post), kind, val))
                    k = self.freeze(post)
                    if k not in reach:
                        reach[k] = post
                        work.append(post)
                        if len(reach) > self.max_states:
                            raise AnalysisError("typestate: reachable set too large")
        return reach
