"""Return-value conditions: under which established facts can a function return a truthy / non-None value?

`true_alternatives(fi)` enumerates the `return` exits of a predicate-like function; for each exit that may return a
truthy value it yields the set of (fact text -> polarity) holding there, with conjuncts of the returned expression
added and calls to other repository predicates inlined (parameters substituted, `self` mapped to the receiver).
"""
from __future__ import annotations

import ast
import re
from typing import Optional

from .prog import ClassInfo, FuncInfo, Program, dotted, unparse
from .flow import cond_atoms
from .match import pretty


def _subst(text: str, amap: dict) -> str:
    if not amap:
        return text
    # identifiers only: not inside string literals, not attribute names, not keyword-argument names (`name=` but not `name==`)
    return re.sub(r"'[^']*'|\"[^\"]*\"|(?<![.\w])[A-Za-z_][A-Za-z_0-9]*\b(?!\s*=(?!=))",
                  lambda m: amap.get(m.group(0), m.group(0)), text)


def peel(e: ast.AST) -> ast.AST:
    """Strip wrappers that keep the truth value: bool(x), `True if x else False`, `not not x`."""
    while True:
        if isinstance(e, ast.Call) and dotted(e.func) == "bool" and len(e.args) == 1 and not e.keywords:
            e = e.args[0]
            continue
        if isinstance(e, ast.IfExp) and isinstance(e.body, ast.Constant) and e.body.value is True and \
                isinstance(e.orelse, ast.Constant) and e.orelse.value is False:
            e = e.test
            continue
        if isinstance(e, ast.UnaryOp) and isinstance(e.op, ast.Not) and isinstance(e.operand, ast.UnaryOp) and isinstance(e.operand.op, ast.Not):
            e = e.operand.operand
            continue
        return e


class Truth:
    def __init__(self, prog: Program, flows, max_alts: int = 24):
        self.prog = prog
        self.flows = flows
        self.max_alts = max_alts
        self._busy = set()

    def exits(self, fi: FuncInfo, want: str = "truthy") -> list:
        """[(return stmt, state, returned expr expanded)] for exits that may return a truthy (or non-None) value."""
        fl = self.flows.get(fi)
        out = []
        for k, s, st in fl.exits:
            if k != "return" or s.value is None:
                continue
            c = self.prog.try_fold(fi.module, s.value, default="<nc>")
            if c != "<nc>":
                if want == "truthy" and not c:
                    continue
                if want == "nonnone" and c is None:
                    continue
            out.append((s, st, peel(fl.expand(s.value, st))))
        return out

    def true_alternatives(self, fi: FuncInfo, depth: int = 3, want: str = "truthy") -> list:
        """-> list of dict {fact text: polarity} (one dict per way of returning a truthy value)."""
        if fi.qual in self._busy or depth < 0:
            return [{f"<{fi.name}(...) is true>": True}]
        self._busy.add(fi.qual)
        try:
            alts = []
            for s, st, xv in self.exits(fi, want):
                base = {}
                for f in st.facts:
                    if f.kind == "cond":
                        base[pretty(f.xkey)] = f.pol
                        # inline predicate calls that guard this exit
                c = self.prog.try_fold(fi.module, s.value, default="<nc>")
                partial = [dict(base)]
                atoms = [] if c != "<nc>" else cond_atoms(xv, True)
                # guards that are calls to repo predicates are inlined as well
                guard_calls = [(f.xnode, f.pol) for f in st.facts if f.kind == "cond" and f.pol and isinstance(f.xnode, ast.Call)]
                for node, pol in atoms + guard_calls:
                    txt = pretty(unparse(node))
                    for p in partial:
                        p[txt] = pol
                    if pol and isinstance(node, ast.Call) and depth > 0:
                        sub = self._inline(fi, node, depth - 1)
                        if sub:
                            new = []
                            for p in partial:
                                for sa in sub:
                                    q = dict(p)
                                    q.update(sa)
                                    new.append(q)
                                    if len(new) >= self.max_alts:
                                        break
                                if len(new) >= self.max_alts:
                                    break
                            partial = new
                for p in partial:
                    p["<return>"] = pretty(unparse(xv))
                alts.extend(partial)
            return alts[: self.max_alts * 2]
        finally:
            self._busy.discard(fi.qual)

    def _inline(self, fi: FuncInfo, call: ast.Call, depth: int) -> Optional[list]:
        tg = [t for t in self.prog.call_targets(fi, call, count=False, cha=False) if isinstance(t, FuncInfo)]
        if len(tg) != 1:
            return None
        callee = tg[0]
        if callee.node.returns is not None and "bool" not in unparse(callee.node.returns):
            return None
        params = callee.params
        off = 1 if callee.kind in ("method", "classmethod") and params else 0
        amap = {}
        for i, a in enumerate(call.args):
            if i + off < len(params):
                amap[params[i + off]] = pretty(unparse(a))
        for kw in call.keywords:
            if kw.arg:
                amap[kw.arg] = pretty(unparse(kw.value))
        if off and isinstance(call.func, ast.Attribute) and callee.kind == "method":
            amap[params[0]] = pretty(unparse(call.func.value))
        sub = self.true_alternatives(callee, depth)
        out = []
        for sa in sub:
            out.append({_subst(k, amap): (v if isinstance(v, bool) else _subst(v, amap)) for k, v in sa.items() if k != "<return>"})
        return out
