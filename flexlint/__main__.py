"""CLI:  python -m flexlint setup | check <Cxx> [--tier quick|thorough] | all | explain <replay.json>"""
from __future__ import annotations

import importlib
import json
import os
import sys
import traceback

from .prog import AnalysisError, Program, REPO


def _run_check(prop: str, tier: str) -> int:
    from .report import Ctx
    try:
        mod = importlib.import_module(f"flexlint.rules.{prop.lower()}")
    except ModuleNotFoundError:
        print(f"ANALYSIS-ERROR property={prop}: no rule module")
        return 2
    try:
        ctx = Ctx(prop, tier)
        mod.run(ctx)
        from .rules import lintutil
        lintutil.apply(ctx, prop)
        rc = ctx.finish()
        if rc == 0 and tier == "thorough":
            from .selftest import run_selftest
            rc2 = run_selftest(prop, mod)
            if rc2:
                return rc2
        return rc
    except AnalysisError as e:
        print(f"ANALYSIS-ERROR property={prop}: {e}")
        return 2
    except Exception:  # noqa
        traceback.print_exc()
        print(f"ANALYSIS-ERROR property={prop}: checker crashed (see traceback)")
        return 2


def main(argv: list) -> int:
    if not argv:
        print(__doc__)
        return 2
    cmd = argv[0]
    if cmd == "setup":
        import compileall
        ok = compileall.compile_dir(os.path.dirname(__file__), quiet=1)
        try:
            import asn1tools.parser  # noqa: F401
        except Exception as e:  # pragma: no cover
            print("setup: asn1tools.parser not importable:", e)
            return 1
        p = Program()
        # warm the ASN.1 parse cache (cold parse of the CDD takes tens of seconds; the cache is keyed by the text's SHA-256)
        try:
            from .asn1schema import Schema
            from .rules.msgutil import MESSAGES
            for kind, (_c, _a, _t, mod, const, _r) in MESSAGES.items():
                Schema(p, mod, const)
        except AnalysisError as e:
            print(f"setup: ASN.1 cache not warmed ({e}); the checks will parse on demand")
        print(f"setup ok: {len(p.modules)} modules, {len(p.funcs)} functions under {REPO}")
        return 0 if ok else 1
    if cmd == "check":
        prop = argv[1]
        tier = os.environ.get("VERIF_TIER", "quick")
        if "--tier" in argv:
            tier = argv[argv.index("--tier") + 1]
        return _run_check(prop, tier)
    if cmd == "all":
        tier = argv[argv.index("--tier") + 1] if "--tier" in argv else "quick"
        man = json.load(open(os.path.join(os.path.dirname(os.path.dirname(__file__)), "MANIFEST.json")))
        worst = 0
        for c in man["checks"]:
            rc = _run_check(c["property_id"], tier)
            print(f"== {c['property_id']} exit {rc}")
            worst = max(worst, rc)
        return worst
    if cmd == "explain":
        data = json.load(open(argv[1]))
        print(f"property {data['property']} (tree digest at report time {data['tree_digest']})")
        for v in data["violations"]:
            print(f"- {v['loc']}: rule {v['rule']} at {v['construct']} [{v['disc']}]\n    {v['detail']}")
        print("re-running the check on the current tree:")
        return _run_check(data["property"], "quick")
    print(__doc__)
    return 2


if __name__ == "__main__":
    sys.exit(main(sys.argv[1:]))
