"""K4: codec layout extraction by abstract interpretation of encoders and decoders.

Writer side: an encoder expression is evaluated over the domain "bit layout":
    Layout(kind int|bytes, total bits or None, segments[(leaf field, lsb offset, width|None, reduced?)])
  `x << k` shifts, `|` merges, `& mask` / `% 2**w` bound a width (the operand is *reduced*, i.e.
  cannot spill), `.to_bytes(n)` fixes the total, bytes `+` concatenates, nested `.encode*()` calls on
  `self.<field>` are inlined through the class table.

Reader side: a decoder is evaluated over "slices of the input block":
    Bits(lsb, width, signed, scale)   and   Record(class, {field: value})
  `p[i:j]`, `int.from_bytes`, `>>`, `&`, `%`, `.to_bytes`, enum/bool/int wrappers, nested `Cls.decode*()`.

Both give a flat table  leaf field -> (lsb offset inside the codec block, width, ...)  that the rules
compare with each other and with the clause-9 tables.  Shift amounts are folded, so `4 + 3 * 8`, `28`
and `0x1c` are the same layout; the order of `|` operands is irrelevant.
"""
from __future__ import annotations

import ast
from dataclasses import dataclass, field
from typing import Optional

from .prog import AnalysisError, ClassInfo, FuncInfo, Program, dotted, unparse



# struct format support (network order only): char -> (bits, signed)
_STRUCT_CH = {"b": (8, True), "B": (8, False), "h": (16, True), "H": (16, False), "i": (32, True), "I": (32, False),
              "l": (32, True), "L": (32, False), "q": (64, True), "Q": (64, False), "x": (8, None)}


def parse_struct_format(fmt: str):
    """-> [(bits, signed|None for pad)] ; raises AnalysisError for anything but big-endian fixed-size integer formats."""
    import re as _re
    if not fmt or fmt[0] not in "!>":
        raise AnalysisError(f"struct format {fmt!r}: only network byte order ('!' or '>') is understood")
    out = []
    for cnt, ch in _re.findall(r"(\d*)([a-zA-Z])", fmt[1:]):
        if ch not in _STRUCT_CH:
            raise AnalysisError(f"struct format {fmt!r}: unsupported code {ch!r}")
        for _ in range(int(cnt) if cnt else 1):
            out.append(_STRUCT_CH[ch])
    return out


def _struct_fmt(prog, fi, call, env):
    """(format string, data arg index) for struct.unpack/unpack_from/pack or <Struct const>.unpack(...)"""
    f = call.func
    d = dotted(f) or ""
    if d in ("struct.unpack", "struct.unpack_from", "struct.pack") and call.args:
        fmt = prog.try_fold(fi.module, call.args[0])
        return (fmt, 1) if isinstance(fmt, str) else (None, None)
    if isinstance(f, ast.Attribute) and f.attr in ("unpack", "unpack_from", "pack"):
        base = f.value
        src = None
        if isinstance(base, ast.Call) and (dotted(base.func) or "").endswith("Struct") and base.args:
            src = base.args[0]
        else:
            r = prog.resolve_expr_entity(fi.module, base)
            if isinstance(r, tuple) and r[0] in ("const", "classattr"):
                node = r[2] if r[0] == "const" else r[1].fields[r[2]][1]
                if isinstance(node, ast.Call) and (dotted(node.func) or "").endswith("Struct") and node.args:
                    src = node.args[0]
            if src is None and isinstance(base, ast.Name) and isinstance(env, dict) and isinstance(env.get(base.id), tuple) \
                    and env[base.id][:1] == ("structfmt",):
                return env[base.id][1], 0
        if src is not None:
            fmt = prog.try_fold(fi.module, src)
            return (fmt, 0) if isinstance(fmt, str) else (None, None)
    return None, None

# --------------------------------------------------------------------------------------------
# writer
# --------------------------------------------------------------------------------------------
@dataclass
class Seg:
    leaf: str                 # dotted field path ('' for constants)
    lsb: int
    width: Optional[int]      # None = unbounded (operand used unmasked)
    reduced: bool             # operand reduced modulo 2^width (mask, %, signed to_bytes)
    const: Optional[int] = None
    src: str = ""
    signed_tb: bool = False   # to_bytes(..., signed=True)
    line: int = 0
    owner: str = ""           # qualified name of the method the operand appears in
    rel: str = ""             # file of that method


@dataclass
class Layout:
    kind: str                 # 'int' | 'bytes'
    total: Optional[int]
    segs: list


class WriterEval:
    ENC_NAMES = ("encode", "encode_to_int", "encode_to_bytes", "encode_to_address")

    def __init__(self, prog: Program):
        self.prog = prog
        self.depth = 0

    def of_method(self, fi: FuncInfo, prefix: str = "") -> Layout:
        rets = [n for n in ast.walk(fi.node) if isinstance(n, ast.Return) and n.value is not None]
        if len(rets) != 1:
            raise AnalysisError(f"encoder {fi.qual}: expected a single return expression, found {len(rets)}")
        env = {}
        for st in fi.node.body:
            if isinstance(st, ast.Assign) and len(st.targets) == 1 and isinstance(st.targets[0], ast.Name):
                env[st.targets[0].id] = st.value
        return self.ev(rets[0].value, fi, prefix, env)

    def bytes_len_of_field(self, ci: ClassInfo, attr: str) -> Optional[int]:
        """`__post_init__`: `if len(self.attr) != N: raise` -> N bytes."""
        pi = ci.find_method("__post_init__")
        if pi is None:
            return None
        from . import sem
        import re as _re
        # every path to a `raise` of __post_init__ that tested len(self.attr) != N - whatever the spelling / nesting of the test
        for r in [n for n in ast.walk(pi.node) if isinstance(n, ast.Raise)]:
            for pc in sem.path_conditions(pi.node, r, kill_rebound=False):
                for a in pc:
                    m_ = _re.fullmatch(r"!eq\((.+),(.+)\)", a)
                    if not m_:
                        continue
                    for x, y in ((m_.group(1), m_.group(2)), (m_.group(2), m_.group(1))):
                        if x == f"len(self.{attr})":
                            try:
                                v = int(y)
                            except ValueError:
                                v = self.prog.try_fold(pi.module, ast.parse(y, mode="eval").body)
                            if isinstance(v, int):
                                return v
        return None

    def ev(self, e: ast.AST, fi: FuncInfo, prefix: str, env: dict) -> Layout:
        lay = self._ev(e, fi, prefix, env)
        for sg in lay.segs:
            if not sg.owner:
                sg.owner, sg.rel = fi.short(), fi.module.rel
        return lay

    def _ev(self, e: ast.AST, fi: FuncInfo, prefix: str, env: dict) -> Layout:
        P = self.prog
        m = fi.module
        line = getattr(e, "lineno", 0)
        c = P.try_fold(m, e)
        if isinstance(c, bool):
            c = int(c)
        if isinstance(c, int):
            return Layout("int", None, [Seg("", 0, None, True, const=c, src=unparse(e), line=line)])
        if isinstance(c, bytes):
            return Layout("bytes", 8 * len(c), [Seg("", 0, 8 * len(c), True, const=int.from_bytes(c, "big"), src=repr(c), line=line)])
        if isinstance(e, ast.Name) and e.id in env:
            return self.ev(env[e.id], fi, prefix, env)
        d = dotted(e)
        if d and d.startswith("self."):
            path = d[5:]
            if path.endswith(".value"):
                path = path[:-6]
            elif path == "value" and fi.cls is not None and fi.cls.is_enum:
                path = ""
            leaf = (prefix + "." + path).strip(".") if path else prefix
            # bytes-typed field with a fixed length
            if fi.cls is not None and "." not in path and path:
                bl = self.bytes_len_of_field(fi.cls, path)
                if bl is not None:
                    return Layout("bytes", 8 * bl, [Seg(leaf, 0, 8 * bl, True, src=d, line=line)])
            return Layout("int", None, [Seg(leaf, 0, None, False, src=d, line=line)])
        if isinstance(e, ast.Call):
            fn = e.func
            fd = dotted(fn)
            if fd in ("int", "bool") and len(e.args) == 1:
                lay = self.ev(e.args[0], fi, prefix, env)
                if fd == "bool":
                    for s in lay.segs:
                        s.width, s.reduced = 1, True
                return lay
            if fd == "int.from_bytes" and e.args:
                lay = self.ev(e.args[0], fi, prefix, env)
                return Layout("int", lay.total, lay.segs)
            fmt, di = _struct_fmt(P, fi, e, env)
            if fmt is not None and isinstance(fn, ast.Attribute) and fn.attr == "pack":
                parts = parse_struct_format(fmt)
                vals = list(e.args[di:])
                fields_ = [p_ for p_ in parts if p_[1] is not None]
                if len(vals) != len(fields_):
                    raise AnalysisError(f"{fi.qual}:{line}: struct.pack with {len(vals)} values for format {fmt!r}")
                total = sum(b for b, _ in parts)
                segs, pos, vi = [], 0, 0
                for bits, signed in parts:
                    if signed is not None:
                        lay = self.ev(vals[vi], fi, prefix, env)
                        vi += 1
                        for sg in lay.segs:
                            sg.lsb += total - pos - bits
                            if sg.width is None:
                                sg.width = bits
                                sg.signed_tb = bool(signed)
                                sg.reduced = bool(signed)
                        segs += lay.segs
                    pos += bits
                return Layout("bytes", total, segs)
            if isinstance(fn, ast.Attribute) and fn.attr == "to_bytes":
                lay = self.ev(fn.value, fi, prefix, env)
                n = None
                if e.args:
                    n = P.try_fold(m, e.args[0])
                for kw in e.keywords:
                    if kw.arg == "length":
                        n = P.try_fold(m, kw.value)
                if not isinstance(n, int):
                    raise AnalysisError(f"{fi.qual}:{line}: to_bytes with non-constant length")
                signed = any(kw.arg == "signed" and P.try_fold(m, kw.value) is True for kw in e.keywords)
                order = None
                if len(e.args) > 1:
                    order = P.try_fold(m, e.args[1])
                for kw in e.keywords:
                    if kw.arg == "byteorder":
                        order = P.try_fold(m, kw.value)
                if order != "big":
                    raise AnalysisError(f"{fi.qual}:{line}: to_bytes byte order {order!r} (network order expected)")
                if len(lay.segs) == 1 and lay.segs[0].width is None:
                    lay.segs[0].width = 8 * n
                    lay.segs[0].signed_tb = signed
                    lay.segs[0].reduced = signed      # unsigned to_bytes raises on negatives: not a reduction
                return Layout("bytes", 8 * n, lay.segs)
            if isinstance(fn, ast.Attribute) and fn.attr in self.ENC_NAMES:
                recv = fn.value
                rd = dotted(recv)
                if rd and (rd == "self" or rd.startswith("self.")):
                    ts = [t for t in P.expr_types(fi, recv) if isinstance(t, str) and t in P.classes]
                    if len(ts) == 1:
                        sub = P.classes[ts[0]].find_method(fn.attr)
                        if sub is not None:
                            self.depth += 1
                            if self.depth > 8:
                                raise AnalysisError("encoder recursion too deep")
                            try:
                                np = (prefix + "." + rd[5:]).strip(".") if rd != "self" else prefix
                                return self.of_method(sub, np)
                            finally:
                                self.depth -= 1
                raise AnalysisError(f"{fi.qual}:{line}: cannot resolve nested encoder {unparse(e)}")
        if isinstance(e, ast.BinOp):
            if isinstance(e.op, ast.LShift):
                k = P.try_fold(m, e.right)
                if not isinstance(k, int):
                    raise AnalysisError(f"{fi.qual}:{line}: non-constant shift {unparse(e.right)}")
                lay = self.ev(e.left, fi, prefix, env)
                for s in lay.segs:
                    s.lsb += k
                return Layout("int", None, lay.segs)
            if isinstance(e.op, ast.BitOr):
                a = self.ev(e.left, fi, prefix, env)
                b = self.ev(e.right, fi, prefix, env)
                return Layout("int", None, a.segs + b.segs)
            if isinstance(e.op, ast.BitAnd):
                mk = P.try_fold(m, e.right)
                lay = self.ev(e.left, fi, prefix, env)
                if not isinstance(mk, int):
                    mk = P.try_fold(m, e.left)
                    lay = self.ev(e.right, fi, prefix, env)
                if isinstance(mk, int) and mk > 0 and len(lay.segs) == 1:
                    z = (mk & -mk).bit_length() - 1
                    w = (mk >> z).bit_length()
                    if (mk >> z) == (1 << w) - 1 and z == 0 and lay.segs[0].lsb == 0:
                        lay.segs[0].width, lay.segs[0].reduced = w, True
                        return lay
                raise AnalysisError(f"{fi.qual}:{line}: unsupported mask form {unparse(e)}")
            if isinstance(e.op, ast.Mod):
                md = P.try_fold(m, e.right)
                lay = self.ev(e.left, fi, prefix, env)
                if isinstance(md, int) and md > 0 and md & (md - 1) == 0 and len(lay.segs) == 1 and lay.segs[0].lsb == 0:
                    lay.segs[0].width, lay.segs[0].reduced = md.bit_length() - 1, True
                    return lay
                raise AnalysisError(f"{fi.qual}:{line}: unsupported modulo form {unparse(e)}")
            if isinstance(e.op, ast.Add):
                a = self.ev(e.left, fi, prefix, env)
                b = self.ev(e.right, fi, prefix, env)
                if a.kind == "bytes" and b.kind == "bytes":
                    if b.total is None or a.total is None:
                        raise AnalysisError(f"{fi.qual}:{line}: concatenation of bytes of unknown length")
                    for s in a.segs:
                        s.lsb += b.total
                    return Layout("bytes", a.total + b.total, a.segs + b.segs)
                raise AnalysisError(f"{fi.qual}:{line}: '+' on non-bytes layouts {unparse(e)[:60]}")
        raise AnalysisError(f"{fi.qual}:{line}: encoder expression outside the understood forms: {unparse(e)[:80]}")


def writer_table(prog: Program, fi: FuncInfo) -> tuple:
    """-> (total bits or None, {leaf: Seg}) ; duplicate leaves are returned as leaf#2."""
    lay = WriterEval(prog).of_method(fi)
    tab = {}
    for s in lay.segs:
        if s.const is not None and not s.leaf:
            if s.const != 0:
                tab.setdefault(f"<const@{s.lsb}>", s)
            continue
        k = s.leaf
        i = 2
        while k in tab:
            k = f"{s.leaf}#{i}"
            i += 1
        tab[k] = s
    return lay.total, tab


# --------------------------------------------------------------------------------------------
# reader
# --------------------------------------------------------------------------------------------
@dataclass
class Bits:
    lsb: Optional[int]        # offset from the LSB end of the codec block (None = unknown yet)
    width: Optional[int]
    kind: str = "int"         # int | bytes
    signed: bool = False      # sign-extended by the reader
    scale: int = 0            # value left scaled by 2^scale (mask without shift)
    msb: Optional[int] = None  # offset from the MSB end when the block total is unknown
    line: int = 0
    owner: str = ""
    rel: str = ""
    partial: bool = False     # on some branch the decoder substitutes a constant for the wire value


@dataclass
class Record:
    cls: str
    fields: dict


class ReaderEval:
    DEC_NAMES = ("decode", "decode_from_int", "decode_from_bytes")

    def __init__(self, prog: Program):
        self.prog = prog
        self.guards: dict = {}     # qual -> min length (bytes) demanded by the reader
        self.depth = 0
        self.sign_notes: list = []

    @staticmethod
    def guard_len(fi: FuncInfo, prog: Program, pname: str) -> Optional[int]:
        for n in ast.walk(fi.node):
            if isinstance(n, ast.If) and any(isinstance(b, ast.Raise) for b in n.body) and isinstance(n.test, ast.Compare) \
                    and len(n.test.ops) == 1:
                l, op, r = n.test.left, n.test.ops[0], n.test.comparators[0]
                if isinstance(l, ast.Call) and dotted(l.func) == "len" and l.args and dotted(l.args[0]) == pname:
                    v = prog.try_fold(fi.module, r)
                    if isinstance(v, int):
                        if isinstance(op, ast.Lt):
                            return v
                        if isinstance(op, ast.NotEq):
                            return v
                        if isinstance(op, ast.LtE):
                            return v + 1
        return None

    def of_method(self, fi: FuncInfo, block: Bits):
        """Evaluate decoder `fi` applied to `block`; returns Record / Bits."""
        params = fi.params
        if fi.kind in ("classmethod", "method") and params:
            params = params[1:]
        if len(params) != 1:
            raise AnalysisError(f"decoder {fi.qual}: expected one data parameter")
        p = params[0]
        g = self.guard_len(fi, self.prog, p)
        if g is not None:
            self.guards[fi.qual] = g
        blk = Bits(block.lsb, block.width, block.kind, line=fi.node.lineno)
        if blk.width is None and g is not None:
            blk.width = 8 * g
        if blk.lsb is None and block.msb is None:
            blk.lsb = 0          # the whole block: LSB-relative origin is known even if its width is not
            blk.msb = 0
        env = {p: blk}
        ret = self._block(fi.node.body, fi, env)
        if ret is None:
            raise AnalysisError(f"decoder {fi.qual}: no return value understood")
        return ret

    def _block(self, stmts, fi, env):
        for i_, st in enumerate(stmts):
            if isinstance(st, ast.Expr):
                continue
            if isinstance(st, ast.If) and not st.orelse and len(st.body) == 1 and isinstance(st.body[0], ast.Return) and \
                    st.body[0].value is not None and i_ + 1 < len(stmts) and isinstance(stmts[i_ + 1], ast.Return) and \
                    stmts[i_ + 1].value is not None:
                # `if c: return A` / `return B` is the statement spelling of `return A if c else B` (the loader unfolds the latter)
                both = ast.copy_location(ast.IfExp(test=st.test, body=st.body[0].value, orelse=stmts[i_ + 1].value), st)
                v = self.ev(both, fi, env)
                if v is not None:
                    return v
            if isinstance(st, ast.AugAssign) and isinstance(st.target, ast.Name):
                cur = ast.Name(id=st.target.id, ctx=ast.Load())
                env[st.target.id] = self.ev(ast.BinOp(left=cur, op=st.op, right=st.value, lineno=st.lineno), fi, env)
                continue
            if isinstance(st, ast.If):
                if any(isinstance(b, ast.Raise) for b in st.body) and not st.orelse:
                    continue
                se = self._sign_ext_if(st, fi, env)
                if se:
                    continue
                # assignments in branches: evaluate all, require agreement on positions
                branches = []
                cur = st
                while True:
                    branches.append(cur.body)
                    if len(cur.orelse) == 1 and isinstance(cur.orelse[0], ast.If):
                        cur = cur.orelse[0]
                        continue
                    if cur.orelse:
                        branches.append(cur.orelse)
                    break
                envs = []
                for b in branches:
                    e2 = dict(env)
                    r = self._block(b, fi, e2)
                    if r is not None:
                        return r
                    envs.append(e2)
                for k in set().union(*[set(e) for e in envs]):
                    vals = [e[k] for e in envs if k in e]
                    changed = [v for e, v in zip(envs, [e.get(k) for e in envs]) if e.get(k) is not env.get(k)]
                    if not changed:
                        continue
                    bits = [v for v in changed if isinstance(v, Bits)]
                    v0 = bits[0] if bits else changed[0]
                    for v in bits[1:]:
                        if (v0.lsb, v0.width) != (v.lsb, v.width):
                            raise AnalysisError(f"decoder {fi.qual}: branch-dependent position for {k}")
                    if bits and len(bits) != len(changed):
                        # some branch replaces the wire value by something else (a constant): the field is not decoded there
                        v0 = Bits(v0.lsb, v0.width, v0.kind, v0.signed, v0.scale, v0.msb, v0.line, v0.owner, v0.rel)
                        v0.partial = True
                    env[k] = v0
                continue
            if isinstance(st, (ast.Assign, ast.AnnAssign)):
                tgt = st.targets[0] if isinstance(st, ast.Assign) else st.target
                if st.value is None:
                    continue
                if isinstance(tgt, ast.Name):
                    env[tgt.id] = self.ev(st.value, fi, env)
                elif isinstance(tgt, (ast.Tuple, ast.List)):
                    v = self.ev(st.value, fi, env)
                    if isinstance(v, tuple) and len(v) == len(tgt.elts):
                        for t, x in zip(tgt.elts, v):
                            if isinstance(t, ast.Name):
                                env[t.id] = x
                    elif isinstance(v, tuple):
                        raise AnalysisError(f"decoder {fi.qual}:{st.lineno}: unpacking {len(v)} values into {len(tgt.elts)} names")
                continue
            if isinstance(st, ast.Return):
                if st.value is None:
                    return None
                return self.ev(st.value, fi, env)
            if isinstance(st, ast.Raise):
                return None
            raise AnalysisError(f"decoder {fi.qual}: unsupported statement {type(st).__name__} at line {st.lineno}")
        return None

    def _sign_test(self, test, fi, env):
        """`x & 2**(w-1)` / `x >= 2**(w-1)` / `x > 2**(w-1) - 1`  ->  (Bits x) when it tests the sign bit of x."""
        P, m = self.prog, fi.module
        if isinstance(test, ast.BinOp) and isinstance(test.op, ast.BitAnd):
            for a, b in ((test.left, test.right), (test.right, test.left)):
                x, k = self.ev(a, fi, env), P.try_fold(m, b, {n: v for n, v in env.items() if isinstance(v, int)})
                if isinstance(x, Bits) and isinstance(k, int) and x.width and k == 1 << (x.width - 1):
                    return x
        if isinstance(test, ast.Compare) and len(test.ops) == 1:
            x = self.ev(test.left, fi, env)
            k = P.try_fold(m, test.comparators[0], {n: v for n, v in env.items() if isinstance(v, int)})
            if isinstance(x, Bits) and isinstance(k, int) and x.width:
                if isinstance(test.ops[0], ast.GtE) and k == 1 << (x.width - 1):
                    return x
                if isinstance(test.ops[0], ast.Gt) and k == (1 << (x.width - 1)) - 1:
                    return x
        return None

    def _is_minus_pow(self, expr, x: "Bits", fi, env) -> bool:
        """expr == <x> - 2**width"""
        if isinstance(expr, ast.BinOp) and isinstance(expr.op, ast.Sub):
            inner = self.ev(expr.left, fi, env)
            k = self.prog.try_fold(fi.module, expr.right, {n: v for n, v in env.items() if isinstance(v, int)})
            return isinstance(inner, Bits) and (inner.lsb, inner.width, inner.msb) == (x.lsb, x.width, x.msb) \
                and isinstance(k, int) and x.width is not None and k == 1 << x.width
        return False

    def _sign_ext_if(self, st, fi, env) -> bool:
        """`if <sign bit of x>: x -= 2**w` (or x = x - 2**w) with no else."""
        if st.orelse or len(st.body) != 1:
            return False
        x = self._sign_test(st.test, fi, env)
        if x is None:
            return False
        b = st.body[0]
        if isinstance(b, ast.AugAssign) and isinstance(b.op, ast.Sub) and isinstance(b.target, ast.Name):
            if env.get(b.target.id) is x or (isinstance(env.get(b.target.id), Bits) and
                                            (env[b.target.id].lsb, env[b.target.id].width) == (x.lsb, x.width)):
                k = self.prog.try_fold(fi.module, b.value, {n: v for n, v in env.items() if isinstance(v, int)})
                if isinstance(k, int) and k == 1 << x.width:
                    env[b.target.id] = Bits(x.lsb, x.width, "int", signed=True, msb=x.msb, line=st.lineno,
                                            owner=fi.short(), rel=fi.module.rel)
                    return True
        if isinstance(b, ast.Assign) and len(b.targets) == 1 and isinstance(b.targets[0], ast.Name) \
                and self._is_minus_pow(b.value, x, fi, env):
            env[b.targets[0].id] = Bits(x.lsb, x.width, "int", signed=True, msb=x.msb, line=st.lineno,
                                        owner=fi.short(), rel=fi.module.rel)
            return True
        return False

    def ev(self, e, fi, env):
        v = self._ev(e, fi, env)
        if isinstance(v, Bits) and not v.owner:
            v.owner, v.rel = fi.short(), fi.module.rel
        return v

    def _ev(self, e, fi, env):
        P, m = self.prog, fi.module
        line = getattr(e, "lineno", 0)
        if isinstance(e, ast.Name):
            if e.id in env:
                return env[e.id]
            c = P.try_fold(m, e)
            if c is not None:
                return c
            return None
        c = P.try_fold(m, e, {n: x for n, x in env.items() if isinstance(x, int)})
        if c is not None and not isinstance(e, ast.Name):
            return c
        if isinstance(e, ast.Subscript):
            v = self.ev(e.value, fi, env)
            if isinstance(v, tuple) and not (v[:1] == ("structfmt",)):
                i = P.try_fold(m, e.slice)
                if isinstance(i, int) and -len(v) <= i < len(v):
                    return v[i]
                return None
            if isinstance(v, Bits) and v.kind == "bytes":
                sl = e.slice
                if isinstance(sl, ast.Slice):
                    lo = P.try_fold(m, sl.lower) if sl.lower is not None else 0
                    hi = P.try_fold(m, sl.upper) if sl.upper is not None else None
                    if not isinstance(lo, int) or (sl.upper is not None and not isinstance(hi, int)):
                        raise AnalysisError(f"{fi.qual}:{line}: non-constant slice")
                    if v.width is None:
                        if hi is None:
                            return Bits(0, None, "bytes", msb=None, line=line)
                        # unknown block total: positions are MSB relative
                        return Bits(None, 8 * (hi - lo), "bytes", msb=(v.msb or 0) + 8 * lo, line=line)
                    if hi is None:
                        hi = v.width // 8
                    return Bits(v.lsb + v.width - 8 * hi, 8 * (hi - lo), "bytes", line=line)
                idx = P.try_fold(m, sl)
                if isinstance(idx, int):
                    if v.width is None:
                        return Bits(None, 8, "int", msb=(v.msb or 0) + 8 * idx, line=line)
                    return Bits(v.lsb + v.width - 8 * (idx + 1), 8, "int", line=line)
            return None
        if isinstance(e, ast.Call):
            fd = dotted(e.func)
            if fd == "int.from_bytes" and e.args:
                v = self.ev(e.args[0], fi, env)
                if isinstance(v, Bits):
                    order = P.try_fold(m, e.args[1]) if len(e.args) > 1 else None
                    for kw in e.keywords:
                        if kw.arg == "byteorder":
                            order = P.try_fold(m, kw.value)
                    if order != "big":
                        raise AnalysisError(f"{fi.qual}:{line}: from_bytes byte order {order!r}")
                    signed = any(kw.arg == "signed" and P.try_fold(m, kw.value) is True for kw in e.keywords)
                    return Bits(v.lsb, v.width, "int", signed=signed, msb=v.msb, line=line)
                return None
            if fd in ("int", "bool") and len(e.args) == 1:
                return self.ev(e.args[0], fi, env)
            fmt, di = _struct_fmt(P, fi, e, env)
            if fmt is not None and isinstance(e.func, ast.Attribute) and e.func.attr.startswith("unpack") and len(e.args) > di:
                v = self.ev(e.args[di], fi, env)
                if isinstance(v, Bits) and v.kind == "bytes":
                    parts = parse_struct_format(fmt)
                    off = 0
                    if e.func.attr == "unpack_from" and len(e.args) > di + 1:
                        o = P.try_fold(m, e.args[di + 1])
                        if not isinstance(o, int):
                            raise AnalysisError(f"{fi.qual}:{line}: unpack_from with non-constant offset")
                        off = 8 * o
                    total = sum(b for b, _ in parts)
                    out = []
                    pos = off
                    for bits, signed in parts:
                        if signed is not None:
                            if v.width is not None and v.lsb is not None:
                                out.append(Bits(v.lsb + v.width - pos - bits, bits, "int", signed=bool(signed), line=line))
                            else:
                                out.append(Bits(None, bits, "int", signed=bool(signed), msb=(v.msb or 0) + pos, line=line))
                        pos += bits
                    return tuple(out)
                return None
            if isinstance(e.func, ast.Attribute) and e.func.attr == "to_bytes":
                v = self.ev(e.func.value, fi, env)
                n = P.try_fold(m, e.args[0]) if e.args else None
                if isinstance(v, Bits) and isinstance(n, int):
                    return Bits(v.lsb, 8 * n, "bytes", line=line)
                return None
            # nested decoder / enum / dataclass constructor
            ent = P.resolve_expr_entity(m, e.func)
            if isinstance(e.func, ast.Name) and e.func.id == "cls" and fi.cls is not None:
                ent = fi.cls
            if isinstance(e.func, ast.Attribute) and isinstance(e.func.value, ast.Name) and e.func.value.id == "cls" \
                    and fi.cls is not None:
                ent = fi.cls.find_method(e.func.attr)
            if isinstance(ent, FuncInfo) and ent.name in self.DEC_NAMES and e.args:
                v = self.ev(e.args[0], fi, env)
                if isinstance(v, Bits):
                    self.depth += 1
                    if self.depth > 8:
                        raise AnalysisError("decoder recursion too deep")
                    try:
                        sub = self.of_method(ent, Bits(v.lsb if v.lsb is not None else None, v.width,
                                                       "bytes" if ent.name != "decode_from_int" and v.kind == "bytes" else v.kind))
                        if v.lsb is None and v.msb is not None:
                            sub = _shift_msb(sub, v.msb)
                        return sub
                    finally:
                        self.depth -= 1
                return None
            if isinstance(ent, FuncInfo) and ent.name not in self.DEC_NAMES and ent.cls is None or (
                    isinstance(ent, FuncInfo) and ent.kind == "staticmethod" and ent.name not in self.DEC_NAMES):
                # small helper (e.g. a sign-extension function): inline with all parameters bound
                ps = ent.params
                vals = [self.ev(a, fi, env) for a in e.args]
                if len(vals) <= len(ps) and any(isinstance(v, Bits) for v in vals):
                    self.depth += 1
                    if self.depth > 8:
                        raise AnalysisError("decoder recursion too deep")
                    try:
                        env2 = dict(zip(ps, vals))
                        for kw in e.keywords:
                            if kw.arg:
                                env2[kw.arg] = self.ev(kw.value, fi, env)
                        r = self._block(ent.node.body, ent, env2)
                        if isinstance(r, Bits):
                            r = Bits(r.lsb, r.width, r.kind, r.signed, r.scale, r.msb, line, fi.short(), fi.module.rel)
                        return r
                    finally:
                        self.depth -= 1
                return None
            if isinstance(ent, ClassInfo):
                if ent.is_enum and len(e.args) == 1:
                    return self.ev(e.args[0], fi, env)
                flds = {}
                names = [n for n, (ann, _) in ent.fields.items() if ann is not None]
                for i, a in enumerate(e.args):
                    if i < len(names):
                        flds[names[i]] = self.ev(a, fi, env)
                for kw in e.keywords:
                    if kw.arg:
                        flds[kw.arg] = self.ev(kw.value, fi, env)
                return Record(ent.qual, flds)
            return None
        if isinstance(e, ast.BinOp):
            if isinstance(e.op, ast.RShift):
                v = self.ev(e.left, fi, env)
                k = self.ev(e.right, fi, env)
                if isinstance(v, Bits) and isinstance(k, int):
                    if v.scale:
                        if k > v.scale:
                            raise AnalysisError(f"{fi.qual}:{line}: shift beyond mask scale")
                        return Bits(v.lsb, v.width, "int", scale=v.scale - k, line=line)
                    if v.lsb is None:
                        raise AnalysisError(f"{fi.qual}:{line}: shift on a slice of unknown position")
                    return Bits(v.lsb + k, (v.width - k) if v.width is not None else None, "int", line=line)
                return None
            if isinstance(e.op, ast.BitAnd):
                v = self.ev(e.left, fi, env)
                mk = self.ev(e.right, fi, env)
                if mk is None:
                    mk = P.try_fold(m, e.right, {n: x for n, x in env.items() if isinstance(x, int)})
                if v is None:
                    v = P.try_fold(m, e.left, {n: x for n, x in env.items() if isinstance(x, int)})
                if isinstance(mk, Bits) and isinstance(v, int):
                    v, mk = mk, v
                if isinstance(v, Bits) and isinstance(mk, int) and mk > 0:
                    z = (mk & -mk).bit_length() - 1
                    w = (mk >> z).bit_length()
                    if (mk >> z) != (1 << w) - 1:
                        raise AnalysisError(f"{fi.qual}:{line}: non-contiguous mask {mk:#x}")
                    if v.lsb is None:
                        if v.width is None:
                            raise AnalysisError(f"{fi.qual}:{line}: mask on a slice of unknown position")
                        return Bits(None, w, "int", scale=z, msb=v.msb + v.width - z - w, line=line)
                    return Bits(v.lsb + z, w, "int", scale=z, line=line)
                return None
            if isinstance(e.op, ast.Mod):
                v = self.ev(e.left, fi, env)
                md = self.ev(e.right, fi, env)
                if isinstance(v, Bits) and isinstance(md, int) and md > 0 and md & (md - 1) == 0:
                    return Bits(v.lsb, md.bit_length() - 1, "int", line=line)
                return None
            if isinstance(e.op, ast.Sub):
                # (x ^ 2**(w-1)) - 2**(w-1)
                if isinstance(e.left, ast.BinOp) and isinstance(e.left.op, ast.BitXor):
                    x = self.ev(e.left.left, fi, env)
                    h1 = P.try_fold(m, e.left.right, {n: v for n, v in env.items() if isinstance(v, int)})
                    h2 = P.try_fold(m, e.right, {n: v for n, v in env.items() if isinstance(v, int)})
                    if isinstance(x, Bits) and x.width and h1 == h2 == 1 << (x.width - 1):
                        return Bits(x.lsb, x.width, "int", signed=True, msb=x.msb, line=line)
                return None
        if isinstance(e, ast.IfExp):
            # sign extension idioms:  x - 2**w if <sign bit of x> else x   /   x if x < 2**(w-1) else x - 2**w
            x = self._sign_test(e.test, fi, env)
            if x is not None and self._is_minus_pow(e.body, x, fi, env):
                o = self.ev(e.orelse, fi, env)
                if isinstance(o, Bits) and (o.lsb, o.width) == (x.lsb, x.width):
                    return Bits(x.lsb, x.width, "int", signed=True, msb=x.msb, line=line)
            if isinstance(e.test, ast.Compare) and len(e.test.ops) == 1 and isinstance(e.test.ops[0], (ast.Lt, ast.LtE)):
                xx = self.ev(e.test.left, fi, env)
                k = P.try_fold(m, e.test.comparators[0], {n: v for n, v in env.items() if isinstance(v, int)})
                if isinstance(xx, Bits) and xx.width and isinstance(k, int) and \
                        k == (1 << (xx.width - 1)) - (1 if isinstance(e.test.ops[0], ast.LtE) else 0) and \
                        self._is_minus_pow(e.orelse, xx, fi, env):
                    b = self.ev(e.body, fi, env)
                    if isinstance(b, Bits) and (b.lsb, b.width) == (xx.lsb, xx.width):
                        return Bits(xx.lsb, xx.width, "int", signed=True, msb=xx.msb, line=line)
            a = self.ev(e.body, fi, env)
            b = self.ev(e.orelse, fi, env)
            return a if isinstance(a, Bits) else b
        return None


def _shift_msb(v, msb):
    """Translate a sub-record computed in its own block (lsb coordinates) into MSB coordinates of the parent."""
    # sub-block of known width placed at MSB offset `msb` of a parent of unknown total: keep msb-relative
    if isinstance(v, Record):
        return Record(v.cls, {k: _shift_msb(x, msb) for k, x in v.fields.items()})
    return v


def flatten(v, prefix="") -> dict:
    out = {}
    if isinstance(v, Record):
        for k, x in v.fields.items():
            out.update(flatten(x, (prefix + "." + k).strip(".")))
    elif isinstance(v, Bits):
        out[prefix] = v
    return out


def reader_table(prog: Program, fi: FuncInfo, total_bits: Optional[int] = None) -> tuple:
    """-> (guard bytes or None, {leaf: Bits}) in LSB coordinates of the codec block."""
    rv = ReaderEval(prog)
    kind = "int" if fi.name == "decode_from_int" else "bytes"
    blk = Bits(0 if total_bits is not None else None, total_bits, kind)
    if total_bits is None:
        blk.lsb = 0 if kind == "int" else None
    rec = rv.of_method(fi, blk)
    tab = flatten(rec)
    # resolve msb-relative positions when the total became known through the guard
    g = rv.guards.get(fi.qual)
    tot = total_bits if total_bits is not None else (8 * g if g is not None else None)
    for k, b in tab.items():
        if b.lsb is None and b.msb is not None and tot is not None and b.width is not None:
            b.lsb = tot - b.msb - b.width
    return g, tab, rv.guards
